#!/bin/sh
# Offline setup: overlay venv on top of /venv (which has pyhms' dependencies) + solver wheels from the wheelhouse.
set -e
HERE="$(cd "$(dirname "$0")" && pwd)"
if [ ! -x "$HERE/.venv/bin/python" ]; then
  /venv/bin/python -m venv "$HERE/.venv"
fi
SP="$HERE/.venv/lib/python3.12/site-packages"
echo "import site; site.addsitedir('/venv/lib/python3.12/site-packages')" > "$SP/_overlay.pth"
"$HERE/.venv/bin/python" -c "import z3" 2>/dev/null || \
  PIP_NO_INDEX=1 "$HERE/.venv/bin/pip" install --quiet --no-index --find-links /opt/veriftools/wheels z3-solver cvc5 crosshair-tool
"$HERE/.venv/bin/python" -c "import z3, numpy; print('symx venv ok', z3.get_version_string(), numpy.__version__)"
