"""Shared builders for population-level harnesses."""
import math

import numpy as np

from symx.core import land, lor, implies, lnot, ite, same_bits, iff, is_sym, feq


def mk_problem(P, d, box=(-1.0, 1.0), maximize="sym", wrappers=0, fname="F"):
    from pyhms.core import problem as pp

    bounds = np.array([[float(box[0]), float(box[1])]] * d)
    if maximize == "sym":
        maximize = P.bool("maximize")
    F = P.uf(fname, d)
    prob = pp.FunctionProblem(F, bounds, maximize)
    for _ in range(wrappers):
        prob = pp.EvalCountingProblem(prob)
    return prob, F, maximize, bounds


def in_box(x, bounds):
    conds = []
    for j in range(len(bounds)):
        conds.append(land(x[j] >= bounds[j][0], x[j] <= bounds[j][1]))
    return land(*conds)


def mk_inds(P, prob, n, d, name="p", fitness="free", F=None, bounds=None, allow_inf=True):
    """n individuals with symbolic genomes (inside bounds when given) and fitness either free non-NaN symbols
    or F(genome) (evaluated individuals)."""
    from pyhms.core.individual import Individual

    inds = []
    for i in range(n):
        g = P.floats(f"{name}{i}.g", (d,), finite=True)
        if bounds is not None:
            P.assume(in_box(g, bounds))
        if fitness == "free":
            f = P.float(f"{name}{i}.f", nn=True, finite=not allow_inf)
        else:
            f = F(g)
        inds.append(Individual(g, prob, f))
    return inds


def not_worse(a, b, maximize):
    """fitness a is at least as good as b in the problem's direction (merged, no fork)."""
    if is_sym(maximize):
        return ite(maximize, a >= b, a <= b)
    return a >= b if maximize else a <= b


def strictly_better(a, b, maximize):
    if is_sym(maximize):
        return ite(maximize, a > b, a < b)
    return a > b if maximize else a < b


def same_genome(g1, g2):
    return land(*[same_bits(a, b) for a, b in zip(list(np.asarray(g1, dtype=object).flat), list(np.asarray(g2, dtype=object).flat))])


def same_ind(x, y):
    return land(same_genome(x.genome, y.genome), same_bits(x.fitness, y.fitness))


def member(x, pool):
    return lor(*[same_ind(x, y) for y in pool]) if pool else False


def genome_list(g):
    return list(np.asarray(g, dtype=object).flat)


def stub_apply_bounds(P, module_names=("pyhms.demes.single_pop_eas.de", "pyhms.demes.single_pop_eas.sea")):
    """Cut-point: replace apply_bounds by its contract (an arbitrary array inside the box, same shape), which is what
    C17 establishes for the real function.  Recorded as a stub of the harness."""
    import importlib

    P.note_stub("apply_bounds replaced by its contract (arbitrary in-box array of the same shape; contract decided by C17)")

    def contract(genomes, bounds, method):
        shape = np.shape(genomes)
        k = P._n("repaired")
        out = P.floats(k, shape, finite=True)
        for idx in np.ndindex(*shape):
            j = idx[-1]
            P.assume(land(out[idx] >= bounds[j][0], out[idx] <= bounds[j][1]))
        return out

    for mn in module_names:
        m = importlib.import_module(mn)
        P.env.patch(m, "apply_bounds", contract)
