"""C07 - decided on one real DemeTree.run_step from a symbolic-flag state (see tstep.py / _tree.py)."""
from .trun import run_cases
from .tstep import tree_cases, TREE_BOUNDS as BOUNDS, TREE_OUTSIDE as OUTSIDE, TREE_ASSUMPTIONS as ASSUMPTIONS

PROPERTY = "C07"


def cases(tier):
    from . import c10

    # filter / mechanism level with symbolic fitness (ties across parents included): the seeds returned for a parent are
    # individuals offered by that parent, and never more than the free slots
    shared = [c for c in c10.cases(tier) if c["name"].startswith(("levellimit.", "chain.", "demelimit.", "generators."))]
    return tree_cases(PROPERTY, tier, hibernation_values=(False, True)) + run_cases(PROPERTY, tier) + shared
