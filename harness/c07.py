"""C07 - decided on one real DemeTree.run_step from a symbolic-flag state (see tstep.py / _tree.py)."""
from .trun import run_cases
from .tstep import tree_cases, TREE_BOUNDS as BOUNDS, TREE_OUTSIDE as OUTSIDE, TREE_ASSUMPTIONS as ASSUMPTIONS

PROPERTY = "C07"


def cases(tier):
    from . import c10

    # filter / mechanism level with symbolic fitness (ties across parents included): the seeds returned for a parent are
    # individuals offered by that parent, and never more than the free slots
    shared = [c for c in c10.cases(tier) if c["name"].startswith(("levellimit.", "chain.", "demelimit.", "generators."))]
    return tree_cases(PROPERTY, tier, hibernation_values=(False, True)) + run_cases(PROPERTY, tier) + shared


def h_dispatch(P):
    """Engine dispatch through the real init_from_config / DemeTree with a user-registered deme class: a custom level config maps to the
    registered class, and a user entry cannot override a built-in config class."""
    import numpy as np
    from pyhms.config import BaseLevelConfig, EALevelConfig, CMALevelConfig, TreeConfig
    from pyhms.core.individual import Individual
    from pyhms.core.problem import FunctionProblem
    from pyhms.demes.abstract_deme import AbstractDeme
    from pyhms.demes.cma_deme import CMADeme
    from pyhms.demes.ea_deme import EADeme
    from pyhms.demes.single_pop_eas.sea import SEA
    from pyhms.sprout.sprout_candidates import DemeCandidates, DemeFeatures
    from pyhms.sprout import get_simple_sprout
    from pyhms.stop_conditions import DontStop
    from pyhms.tree import DemeTree

    class MyConfig(BaseLevelConfig):
        def __init__(self, problem, lsc):
            super().__init__(problem, lsc)

    class MyDeme(AbstractDeme):
        def __init__(self, args):
            super().__init__(args)
            seed = args.sprout_seed
            self._history.append([[Individual(np.copy(seed.genome), self._problem).evaluate()]])

        def run_metaepoch(self, tree):
            self._history.append([[self.current_population[0]]])

    class NicheEAConfig(EALevelConfig):
        pass

    class NicheEADeme(EADeme):
        pass

    class Hijack(AbstractDeme):
        def run_metaepoch(self, tree):
            pass

    bounds = np.array([[-2.0, 2.0], [-1.0, 3.0]])
    prob = FunctionProblem(lambda x: float(np.sum(x ** 2)), bounds, False)
    use_custom_leaf = bool(P.bool("custom_leaf"))
    derived_root = bool(P.bool("root_config_derived_from_builtin"))
    root_cls = NicheEAConfig if derived_root else EALevelConfig
    levels = [root_cls(ea_class=SEA, generations=1, problem=prob, pop_size=4, mutation_std=0.5, lsc=DontStop()),
              MyConfig(prob, DontStop()) if use_custom_leaf else CMALevelConfig(problem=prob, lsc=DontStop(), generations=1, sigma0=0.5)]
    cfg = TreeConfig(levels, DontStop(), get_simple_sprout(0.01, 3), options={"random_seed": 3},
                     config_class_to_deme_class={MyConfig: MyDeme, NicheEAConfig: NicheEADeme, EALevelConfig: Hijack, CMALevelConfig: Hijack})
    tree = DemeTree(cfg)
    P.oblige("C07.builtin_config_keeps_builtin_engine", derived_root or type(tree.root) is EADeme)
    P.oblige("C07.config_derived_from_builtin_dispatches_to_registered_class", (not derived_root) or type(tree.root) is NicheEADeme)
    for _ in range(2):
        tree.run_step()
    P.oblige("C07.children_exist", len(tree.levels[1]) >= 1)
    for d in tree.levels[1]:
        P.oblige("C07.custom_config_dispatches_to_registered_class", type(d) is (MyDeme if use_custom_leaf else CMADeme))
        P.oblige("C07.child_level_and_parent", d.level == 1 and any(c is d for c in tree.root.children))


h_dispatch.env_opts = {"rng": "real"}
_shared_cases = cases


def cases(tier):  # noqa: F811
    return _shared_cases(tier) + [dict(name="dispatch.custom_deme_class", fn=h_dispatch, params=dict(), profile="fp", budget_s=600)]
