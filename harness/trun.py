"""Bounded runs from the real initial state: DemeTree(config) followed by k real run_step calls (or the real run()),
with local-stop verdicts (and, where stated, the global-stop verdicts) symbolic.  Complements the inductive step of
tstep.py with reachable states only; a violation found here comes with its complete driven history."""
import numpy as np

from symx.core import land, lor, lnot, implies, iff
from ._tree import build, go_symbolic, count_true, digest, val, instrument
from .tstep import _tree_invariant, _counts, _c02_end_to_end, _best, _c12_histories


def make_gsc(kind, w):
    from pyhms import stop_conditions as sc

    if kind == "sym":
        return None
    if kind == "false":
        return sc.DontStop()
    name, _, arg = kind.partition(":")
    if arg == "sym":
        # the budget itself is a symbolic integer: the solver looks for the thresholds at which the run misbehaves
        arg = getattr(w, "_sym_limit", None)
        if arg is None:
            arg = w._sym_limit = w.P.int("limit", 1, 400)
    elif arg:
        arg = int(arg)
    if name == "MetaepochLimit":
        return sc.MetaepochLimit(arg)
    if name == "DontRun":
        return sc.DontRun()
    if name == "SingularProblemEvalLimitReached":
        return sc.SingularProblemEvalLimitReached(arg)
    if name == "FitnessEvalLimitReached":
        return sc.FitnessEvalLimitReached(arg)
    if name == "FitnessEvalLimitReachedRoot":
        return sc.FitnessEvalLimitReached(arg, weights=sc.WeightingStrategy.ROOT)
    if name == "RootStopped":
        return sc.RootStopped()
    if name == "AllStopped":
        return sc.AllStopped()
    if name == "NoActiveNonrootDemes":
        return sc.NoActiveNonrootDemes(arg)
    raise ValueError(kind)


def h_run(P, kinds, props, steps=3, mech="nbc", hibernation=True, L=2, generations=2, gsc="false", use_run=False, maximize=False,
          max_consultations=40, pop=4, seed=1, objective="smooth"):
    deme_filters = "limit1"
    if mech == "stub-multi":
        # a generator offering two candidates for an arbitrary subset of parents, no per-deme limit: several sprouts per parent and round
        mech, deme_filters = "stub", "none"
    w = build(P, kinds, [], L=L, hibernation=hibernation, generations=generations, mech=mech, warm=0, maximize=maximize, pop=pop, seed=seed,
              objective=objective, deme_filters=deme_filters)
    tree = w.tree
    w.sym_cma_stop = False
    go_symbolic(w, free_flags=False)
    w.gsc.inner = make_gsc(gsc, w)
    w.gsc.max_consultations = max_consultations
    props = set(props)
    height = len(tree.levels)
    best_so_far = [tree.best_individual.fitness]
    known = {d.id for _, d in tree.all_demes}
    was_inactive = set()
    steps_done = [0]

    def check_step_start():
        return dict(log=len(w.log.entries), active=[d.id for _, d in tree.all_demes if d._active], count=tree.metaepoch_count,
                    awake=[d.id for _, d in tree.all_demes if d._active and not (w.hibernation and d._hibernating)],
                    digests={d.id: digest(d) for _, d in tree.all_demes if not d._active})

    def check_step_end(pre):
        steps_done[0] += 1
        for _, d in tree.all_demes:
            if d.id not in known:
                known.add(d.id)
                instrument(w, d)
        if "C18" in props:
            # classified by cause so that the known finding (every active deme asleep) does not mask any other stall
            cause = "all_active_demes_asleep" if (pre["active"] and not pre["awake"]) else "some_deme_awake"
            P.oblige(f"C18.progress.{cause}", (not pre["active"]) or len(w.log.entries) > pre["log"])
            for _, d in tree.all_demes:
                if not w.hibernation:
                    P.oblige("C18.off_never_hibernates", d._hibernating is False)
        if "C04" in props:
            _best(P, w, tree, best_so_far, maximize)
        if "C06" in props:
            for _, d in tree.all_demes:
                if d.id in was_inactive:
                    P.oblige("C06.stopping_is_final", d._active is False)
                if d.id in pre["digests"]:
                    P.oblige("C06.stopped_deme_frozen", digest(d) == pre["digests"][d.id])
                if not d._active:
                    was_inactive.add(d.id)
        if "C01" in props:
            lo, hi = w.bounds[:, 0], w.bounds[:, 1]
            P.oblige("C01.every_evaluated_point_in_box", all(all(lo[j] <= x[j] <= hi[j] for j in range(len(lo))) for (_, _, x, _) in w.log.entries))
            P.oblige("C01.every_stored_genome_and_seed_in_box", all(bool(np.all(i.genome >= lo) and np.all(i.genome <= hi)) for _, d in tree.all_demes for g in d.history for i in g)
                     and all(d._sprout_seed is None or bool(np.all(d._sprout_seed.genome >= lo) and np.all(d._sprout_seed.genome <= hi)) for _, d in tree.all_demes))
        if "C02" in props:
            _c02_end_to_end(P, w, tree)
        if "C12" in props:
            _c12_histories(P, w, tree, maximize)
        if "C20" in props:
            _purity(P, w, tree)
            # what the accessors report is what the histories hold (a memo that goes stale while a deme sleeps shows up here)
            better = (lambda a, b: a > b) if maximize else (lambda a, b: a < b)
            for _, d in tree.all_demes:
                mine = [ind for gen in d.history for ind in gen]
                P.oblige("C20.deme_best_accessor_agrees_with_history", not any(better(x.fitness, d.best_individual.fitness) for x in mine)
                         and any(d.best_individual is x for x in mine))
            allinds = [ind for _, d in tree.all_demes for gen in d.history for ind in gen]
            P.oblige("C20.tree_best_accessor_agrees_with_histories", not any(better(x.fitness, tree.best_individual.fitness) for x in allinds))
            P.oblige("C20.summary_reports_current_best", f"Best fitness: {tree.best_individual.fitness:.4e}" in tree.summary().split("\n")[1]
                     and not any(better(x.fitness, float(tree.summary().split("\n")[1].split(": ")[1])) and
                                 f"{x.fitness:.4e}" != tree.summary().split("\n")[1].split(": ")[1] for x in allinds))
        if "C09" in props:
            for _, d in tree.all_demes:
                if not d.current_population:
                    P.oblige("C09.centroid_is_mean_of_current_population", d.centroid is None)
                    continue
                want = np.mean([ind.genome for ind in d.current_population], axis=0)
                P.oblige("C09.centroid_is_mean_of_current_population", bool(np.array_equal(d.centroid, want)))
        if "C07" in props:
            _tree_invariant(P, w, tree)
        if "C08" in props:
            for lvl in range(1, height):
                P.oblige("C08.census_after_step", sum(1 for d in tree.levels[lvl] if d._active) <= w.L)
        if "C03" in props:
            _counts(P, w, tree, "after_step")
        if "C05" in props:
            P.oblige("C05.step_counter", tree.metaepoch_count == pre["count"] + 1)

    if "C08" in props or "C03" in props:
        def at_consultation(tr, k):
            if "C08" in props:
                for lvl in range(1, height):
                    P.oblige("C08.census_at_consultation", sum(1 for d in tr.levels[lvl] if d._active) <= w.L)
            if "C03" in props:
                _counts(P, w, tr, "at_consultation")
        w.gsc.hooks.append(at_consultation)

    if use_run:
        orig = tree.run_step
        heads = []

        def run_step():
            pre = check_step_start()
            if w.gsc.inner is not None:
                # ground truth at the metaepoch boundary, computed by the harness with a fresh pure copy of the condition
                P.oblige("C05.no_metaepoch_after_condition_holds_at_boundary", bool(make_gsc(gsc, w)(tree)) is False)
            if steps_done[0] >= steps:
                P.cut(f"more than {steps} metaepochs")
            r = orig()
            check_step_end(pre)
            return r

        tree.run_step = run_step
        n_before = len(w.gsc.verdicts)
        tree.run()
        # run() returned: the verdict consulted last (at the loop head) was true, and every earlier loop-head verdict false
        P.oblige("C05.returns_when_condition_holds", len(w.gsc.verdicts) > n_before and w.gsc.verdicts[-1] is True
                 and w.gsc.where[-1] is None)
        P.oblige("C05.counter_equals_metaepochs_performed", tree.metaepoch_count == steps_done[0])
        if w.gsc.inner is not None:
            P.oblige("C05.condition_holds_at_return", bool(make_gsc(gsc, w)(tree)) is True)
        name, _, arg = gsc.partition(":")
        if name == "MetaepochLimit" and arg != "sym":
            P.oblige("C05.metaepoch_limit_exact", tree.metaepoch_count == int(arg))
        if name == "DontRun":
            P.oblige("C05.dontrun_zero", tree.metaepoch_count == 0 and steps_done[0] == 0)
    else:
        for _ in range(steps):
            pre = check_step_start()
            tree.run_step()
            check_step_end(pre)


def _observable_state(w, tree):
    return (tree.metaepoch_count, [[(d.id, d._active, d._hibernating, d.n_evaluations, d.started_at, digest(d), [c.id for c in d.children])
                                    for d in lvl] for lvl in tree.levels], len(w.log.entries))


def _purity(P, w, tree):
    accessors = {
        "summary": lambda: tree.summary(),
        "tree": lambda: tree.tree(),
        "best_individual": lambda: (tree.best_individual.fitness, tuple(tree.best_individual.genome)),
        "best_leaf_individual": lambda: (tree.best_leaf_individual.fitness if tree.leaves else None),
        "all_individuals": lambda: [(i.fitness, tuple(i.genome)) for i in tree.all_individuals],
        "r5s_solutions": lambda: [(i.fitness, tuple(i.genome)) for i in tree.r5s_solutions],
        "n_evaluations": lambda: tree.n_evaluations,
        "deme.best": lambda: [(d.best_individual.fitness, d.best_current_individual.fitness if d.best_current_individual else None)
                              for _, d in tree.all_demes],
        "deme.centroid": lambda: [None if d.centroid is None else tuple(d.centroid) for _, d in tree.all_demes],
        "deme.best_fitness_by_metaepoch": lambda: [d.best_fitness_by_metaepoch for _, d in tree.all_demes],
        "deme.history": lambda: [len(d.history) for _, d in tree.all_demes],
    }
    for name, f in accessors.items():
        before = _observable_state(w, tree)
        try:
            a = f()
            mid = _observable_state(w, tree)
            b = f()
        except Exception as e:  # an accessor that raises on a reachable tree gives no answer at all
            P.oblige(f"pure.{name}.answers_on_every_reachable_tree", False)
            continue
        after = _observable_state(w, tree)
        P.oblige(f"pure.{name}.no_state_change_no_evaluation", before == mid == after)
        P.oblige(f"pure.{name}.same_answer_twice", a == b)


h_run.env_opts = {"rng": "real"}


def run_cases(prop, tier, hib_values=(False, True)):
    cs = []
    steps = 4 if tier == "quick" else 6
    combos = [(("ea", "cma"), "nbc-default", 10), (("ea", "cma"), "simple", 4), (("de", "ea", "cma"), "nbc", 4), (("ea", "local"), "nbc", 4),
              (("ea", "local"), "simple:terrace", 4), (("ea", "cma"), "stub-multi", 4)]
    if tier != "quick":
        combos += [(("shade", "cma"), "nbc", 4), (("ea", "ea", "local"), "simple", 4), (("lhs", "cma"), "nbc", 4), (("sobol", "de"), "simple", 4)]
    for kinds, mech, pop in combos:
        mech, _, objective = mech.partition(":")
        for hib in hib_values:
            for L in ((1, 2) if (tier != "quick" or mech == "stub-multi") else (2,)):
                st = steps if len(kinds) == 2 else min(steps, 4)  # 3-level runs fork on more local-stop verdicts per step
                cs.append(dict(name=f"run.{'-'.join(kinds)}.{mech}{'.' + objective if objective else ''}.hib{hib}.L{L}.steps{st}", fn=h_run,
                               params=dict(kinds=list(kinds), props=[prop], steps=st, mech=mech, hibernation=hib, L=L, pop=pop,
                                           objective=objective or "smooth",
                                           max_consultations=400, generations=2 if len(kinds) == 2 else 1),
                               profile="fp", budget_s=900 if tier == "quick" else 3000, max_paths=200000, weight=steps * len(kinds)))
    return cs


def run_loop_cases(tier):
    cs = []
    gscs = ["sym", "MetaepochLimit:2", "DontRun", "SingularProblemEvalLimitReached:sym", "FitnessEvalLimitReached:sym",
            "FitnessEvalLimitReachedRoot:sym", "RootStopped", "AllStopped", "NoActiveNonrootDemes:1", "MetaepochLimit:sym"]
    combos = [(("ea", "cma"), "simple", 4)] if tier == "quick" else [(("ea", "cma"), "simple", 4), (("de", "ea", "cma"), "nbc", 4), (("ea", "local"), "nbc", 4)]
    steps = 3 if tier == "quick" else 5
    for kinds, mech, pop in combos:
        for g in gscs:
            cs.append(dict(name=f"runloop.{'-'.join(kinds)}.{mech}.{g}", fn=h_run,
                           params=dict(kinds=list(kinds), props=["C05"], steps=steps, mech=mech, hibernation=False, L=2, pop=pop, gsc=g, use_run=True,
                                       max_consultations=60, generations=2 if len(kinds) == 2 else 1),
                           profile="fp", budget_s=900 if tier == "quick" else 3000, max_paths=100000, weight=10))
    return cs


def h_twin_run(P, kinds, steps=3, mech="simple", L=2, generations=2, pop=4, seed=1):
    """C13 whole-run form: two complete seeded runs, (f, maximize) and (-f, minimize), under the same schedule of local-stop verdicts
    (symbolic, shared) must visit identical genomes and build identical trees (index-stable engines only)."""
    shared = {}
    worlds = []
    for maximize, objective in ((True, "neg-smooth"), (False, "smooth")):
        w = build(P, kinds, [], L=L, hibernation=False, generations=generations, mech=mech, warm=0, maximize=maximize, pop=pop, seed=seed,
                  objective=objective)
        w.sym_cma_stop = False
        go_symbolic(w, free_flags=False)
        from pyhms.stop_conditions import DontStop
        w.gsc.inner = DontStop()
        for l in w.lscs:
            l.shared = shared
        for _ in range(steps):
            w.tree.run_step()
        worlds.append(w)
    a, b = worlds[0].tree, worlds[1].tree
    sa = [[(d.id, d.started_at, bool(d._active), d.n_evaluations, type(d).__name__) for d in lvl] for lvl in a.levels]
    sb = [[(d.id, d.started_at, bool(d._active), d.n_evaluations, type(d).__name__) for d in lvl] for lvl in b.levels]
    P.oblige("C13.whole_run.same_tree_structure", sa == sb)
    if sa == sb:
        for la, lb in zip(a.levels, b.levels):
            for da, db in zip(la, lb):
                ga = [[(tuple(np.asarray(i.genome).tolist()), i.fitness) for i in g] for g in da.history]
                gb = [[(tuple(np.asarray(i.genome).tolist()), -i.fitness) for i in g] for g in db.history]
                P.oblige("C13.whole_run.same_genomes_mirrored_fitness", ga == gb)
    P.oblige("C13.whole_run.same_evaluation_sequence", [e[2] for e in worlds[0].log.entries] == [e[2] for e in worlds[1].log.entries])


h_twin_run.env_opts = {"rng": "real"}


def twin_cases(tier):
    cs = []
    combos = [(("de", "cma"), "simple"), (("shade", "local"), "nbc"), (("lhs", "de"), "simple"), (("de", "shade", "cma"), "nbc")]
    if tier != "quick":
        combos += [(("sobol", "cma"), "nbc"), (("de", "de", "local"), "simple"), (("shade", "cma"), "nbc-default")]
    steps = 3 if tier == "quick" else 5
    for kinds, mech in combos:
        cs.append(dict(name=f"twinrun.{'-'.join(kinds)}.{mech}.steps{steps}", fn=h_twin_run,
                       params=dict(kinds=list(kinds), steps=steps if len(kinds) == 2 else min(steps, 4), mech=mech, generations=2 if len(kinds) == 2 else 1,
                                   pop=10 if mech == "nbc-default" else 4),
                       profile="fp", budget_s=1500, max_paths=50000, weight=15))
    return cs
