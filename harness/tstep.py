"""One real DemeTree.run_step from a symbolic-flag state; obligations of C03, C05, C06, C07, C08, C11, C18 (selected
by `props`).  See _tree.py for the state construction."""
import numpy as np

from symx.core import SBool, is_sym, land, lor, lnot, implies, iff, ite
from ._tree import build, go_symbolic, count_true, digest, val, instrument

POP_ENGINES = ("EADeme", "DEDeme", "SHADEDeme")


def h_step(P, kinds, shape, props, L=2, hibernation=False, generations=2, mech="stub", warm=1, monotone=True, maximize=False,
           deme_filters="limit1", objective="smooth", lsc="sym", gsc="sym", seed=1, pop=4):
    w = build(P, kinds, shape, L=L, hibernation=hibernation, generations=generations, mech=mech, warm=warm, maximize=maximize,
              deme_filters=deme_filters, objective=objective, seed=seed, pop=pop)
    tree = w.tree
    props = set(props)
    if "C09" in props:
        for _, d in tree.all_demes:
            d.centroid  # a report / filter looked at the centroid before this metaepoch
    if "C02" in props:
        _c02_end_to_end(P, w, tree)
    best_before = [tree.best_individual.fitness]
    go_symbolic(w, monotone=monotone)
    if gsc != "sym":
        # a shipped global stop condition (with a symbolic limit) instead of free verdicts: which consultation is the first 'true'
        # is then decided by the budget, for every value of the budget
        from .trun import make_gsc
        w.gsc.inner = make_gsc(gsc, w)
    if lsc == "MetaepochLimit:sym":
        # shipped local stop condition that reads the deme's own history, with a symbolic limit
        from pyhms.stop_conditions import MetaepochLimit
        for i, l in enumerate(w.lscs):
            l.inner = MetaepochLimit(P.int(f"lsc_limit{i}", 0, 5))
    elif lsc == "AllChildrenStopped":
        from pyhms.stop_conditions import AllChildrenStopped
        for l in w.lscs:
            l.inner = AllChildrenStopped()
    elif lsc == "FitnessSteadiness":
        from pyhms.stop_conditions import FitnessSteadiness
        for i, l in enumerate(w.lscs):
            l.inner = FitnessSteadiness(max_deviation=[0.5, 0.05, 5.0][i % 3], n_metaepochs=1 + i % 2)
    height = len(tree.levels)

    # ---- obligations evaluated at every consultation of the global stop condition
    def at_consultation(tr, k):
        if "C08" in props:
            for lvl in range(1, height):
                P.oblige("C08.census_at_consultation", count_true([d._active for d in tr.levels[lvl]]) <= w.L)
        if "C03" in props:
            _counts(P, w, tr, "at_consultation")

    w.gsc.hooks.append(at_consultation)

    # the sprouting round is observed through a pass-through wrapper around the real mechanism
    mech_obj = tree._sprout_mechanism
    orig_get_seeds = mech_obj.get_seeds
    w.round = None

    def get_seeds(tr):
        snap = {d.id: (d._active, d._hibernating, list(d.current_population)) for _, d in tr.all_demes}
        census = {lvl: [d._active for d in tr.levels[lvl]] for lvl in range(1, height)}
        seeds = orig_get_seeds(tr)
        w.round = dict(snap=snap, census=census, seeds={d.id: list(c.individuals) for d, c in seeds.items()},
                       consults=len(w.gsc.verdicts))
        return seeds

    mech_obj.get_seeds = get_seeds
    try:
        tree.run_step()
    finally:
        mech_obj.get_seeds = orig_get_seeds

    first_true = w.gsc.first_true()
    new_demes = [(lvl, d) for lvl, d in tree.all_demes if d.id not in w.pre]
    for lvl, d in new_demes:
        instrument(w, d)

    # =========================== C05
    if "C05" in props:
        P.oblige("C05.step_counter", tree.metaepoch_count == w.pre_count + 1)
        seen_true_before_sprout = first_true is not None and (w.round is None or first_true < w.round["consults"])
        P.oblige("C05.no_sprout_after_gsc", (not seen_true_before_sprout) or len(new_demes) == 0)
        if first_true is not None:
            P.oblige("C05.no_sprout_round_after_gsc", w.round is None)
        for did, pre in w.pre.items():
            d = pre["obj"]
            runs = d._verif_runs[pre["runs"]:]
            if first_true is not None:
                late = [r for r in runs if r["consults_before"] > first_true]
                P.oblige("C05.winddown_one_iteration", len(late) <= 1)
                # the deme that observed 'true' stops at once
                observed = [i for i, (b, who) in enumerate(zip(w.gsc.verdicts, w.gsc.where)) if b and who == did]
                if observed:
                    after = [r for r in runs if r["consults_before"] > observed[0]]
                    P.oblige("C05.stops_when_observed", len(after) == 0)
                    P.oblige("C05.inactive_when_observed", val(d._active) is False)

    # =========================== C06
    if "C06" in props or "C18" in props:
        for did, pre in w.pre.items():
            d = pre["obj"]
            was_active = val(pre["active"])
            sleeping = w.hibernation and val(pre["hib"])
            should_run = was_active and not sleeping
            stepped = getattr(d, "_verif_stepped", 0) - pre["stepped"]
            mine = w.log.count(who=did, since=w.pre_log)
            if "C06" in props:
                P.oblige("C06.stepped_exactly_once_iff_active", stepped == (1 if should_run else 0))
                if should_run:
                    P.oblige("C06.history_plus_one", len(d._history) == pre["hist"] + 1)
                    P.oblige("C06.old_history_untouched", [id(m) for m in d._history[: pre["hist"]]] == pre["histobjs"])
                else:
                    P.oblige("C06.frozen_history", len(d._history) == pre["hist"] and digest(d) == pre["digest"])
                    P.oblige("C06.frozen_evaluations", d.n_evaluations == pre["evals"] and mine == 0)
                    P.oblige("C06.frozen_flag", iff(d._active, pre["active"]))
                P.oblige("C06.never_reactivated", implies(d._active, pre["active"]))
                if should_run:
                    P.oblige("C06.deactivation_rule", _deactivation(w, d, pre))
                    inner = w.lscs[d.level].inner
                    consulted_gsc_true = any(b for b, who in zip(w.gsc.verdicts, w.gsc.where) if who == did)
                    if inner is not None and not consulted_gsc_true and type(d).__name__ not in ("LocalDeme",) \
                            and not any(getattr(d, "_verif_stop_verdicts", [])):
                        # the condition is evaluated on the deme as it is at the END of its metaepoch (this metaepoch recorded)
                        P.oblige("C06.stops_iff_lsc_holds_at_end_of_metaepoch", val(d._active) == (not bool(inner(d))))
            if "C18" in props and sleeping and was_active:
                P.oblige("C18.sleep_is_free", stepped == 0 and mine == 0 and len(d._history) == pre["hist"] and digest(d) == pre["digest"])
                P.oblige("C18.sleeping_deme_counts_no_evaluations", d.n_evaluations == pre["evals"])
        if "C06" in props:
            for lvl, d in new_demes:
                P.oblige("C06.fresh_deme", len(d._history) == 1 and d.started_at == tree.metaepoch_count and d._active is True
                         and getattr(d, "_verif_stepped", 0) == 0)

    # =========================== C07
    if "C07" in props:
        _tree_invariant(P, w, tree)
        if w.round is not None:
            for pid, seeds in w.round["seeds"].items():
                pop = w.round["snap"][pid][2]
                for s in seeds:
                    P.oblige("C07.seed_from_parent_population", any(s is x for x in pop))
            for lvl, d in new_demes:
                par = [p for _, p in tree.all_demes if d in p.children]
                P.oblige("C07.child_seed_is_offered_seed", len(par) == 1 and any(d._sprout_seed is s for s in w.round["seeds"].get(par[0].id, [])))
                if type(d).__name__ in POP_ENGINES:
                    init = d._history[0][0]
                    P.oblige("C07.seed_in_initial_population", len(init) == d._pop_size and any(
                        np.array_equal(x.genome, d._sprout_seed.genome) and x.fitness == d._sprout_seed.fitness for x in init))

    # =========================== C08
    if "C08" in props:
        for lvl in range(1, height):
            P.oblige("C08.census_after_step", count_true([d._active for d in tree.levels[lvl]]) <= w.L)
            if w.round is not None:
                created = len([d for l2, d in new_demes if l2 == lvl])
                P.oblige("C08.created_within_free_slots", created <= w.L - count_true(w.round["census"][lvl]))

    # =========================== C11
    if "C11" in props:
        for did, pre in w.pre.items():
            d = pre["obj"]
            runs = d._verif_runs[pre["runs"]:]
            if not runs:
                continue
            if type(d).__name__ in POP_ENGINES:
                prev = pre["pop"]
                for j, r in enumerate(runs):
                    P.oblige("C11.parents_are_previous_generation", _same_generation(r["parents"], prev))
                    prev = r["out"]
                gens = d._history[-1]
                P.oblige("C11.recorded_generations_are_engine_outputs", len(gens) == len(runs) and all(g is r["out"] for g, r in zip(gens, runs)))
                _chain(P, d, pre, w)
            elif type(d).__name__ == "CMADeme":
                prev = pre["pop"]
                gens = d._history[-1]
                for j, r in enumerate(runs):
                    g, v = r["tell"]
                    P.oblige("C11.cma_told_previous_generation", len(g) == len(prev) and all(np.array_equal(a, b.genome) for a, b in zip(g, prev)))
                    if j < len(gens):
                        prev = gens[j]

    # =========================== C18
    if "C18" in props:
        _hibernation(P, w, tree, new_demes)

    if "C18" in props:
        awake = [did for did, pre in w.pre.items() if val(pre["active"]) and not (w.hibernation and val(pre["hib"]))]
        if awake:
            P.oblige("C18.progress.some_deme_awake", len(w.log.entries) > w.pre_log)

    if "C01" in props:
        lo, hi = w.bounds[:, 0], w.bounds[:, 1]
        P.oblige("C01.every_evaluated_point_in_box", all(all(lo[j] <= x[j] <= hi[j] for j in range(len(lo))) for (_, _, x, _) in w.log.entries))
        P.oblige("C01.every_stored_genome_and_seed_in_box", all(bool(np.all(i.genome >= lo) and np.all(i.genome <= hi)) for _, d in tree.all_demes for g in d.history for i in g)
                 and all(d._sprout_seed is None or bool(np.all(d._sprout_seed.genome >= lo) and np.all(d._sprout_seed.genome <= hi)) for _, d in tree.all_demes))
    if "C02" in props:
        _c02_end_to_end(P, w, tree)
    if "C04" in props:
        _best(P, w, tree, best_before, maximize)
    if "C12" in props:
        _c12_histories(P, w, tree, maximize)
    # =========================== C09 (centroids are current)
    if "C09" in props:
        for lvl, d in tree.all_demes:
            if not d.current_population:
                # a local search that ended without a single iterate leaves an empty generation: no centroid
                P.oblige("C09.centroid_is_mean_of_current_population", d.centroid is None)
                continue
            want = np.mean([ind.genome for ind in d.current_population], axis=0)
            P.oblige("C09.centroid_is_mean_of_current_population", bool(np.array_equal(d.centroid, want)))

    # =========================== C03
    if "C03" in props:
        _counts(P, w, tree, "after_step")


def _same_generation(a, b):
    return len(a) == len(b) and all(x is y or (np.array_equal(x.genome, y.genome) and x.fitness == y.fitness) for x, y in zip(a, b))


def _chain(P, d, pre, w):
    """Every individual of generation j either belonged to generation j-1 or was evaluated after generation j-1 was complete."""
    runs = d._verif_runs[pre["runs"]:]
    prev = pre["pop"]
    for r in runs:
        evaluated_during = {(e[2], e[3]) for e in w.log.entries[r["log_before"]: r["log_after"]]}
        for x in r["out"]:
            in_prev = any(np.array_equal(x.genome, y.genome) and x.fitness == y.fitness for y in prev)
            fresh = (tuple(np.asarray(x.genome, dtype=np.float64).tolist()), float(x.fitness)) in evaluated_during
            P.oblige("C11.individual_from_previous_or_fresh", in_prev or fresh)
        prev = r["out"]


def _deactivation(w, d, pre):
    name = type(d).__name__
    consults = [(i, b) for i, (b, who) in enumerate(zip(w.gsc.verdicts, w.gsc.where)) if who == d.id]
    gsc_true = any(b for _, b in consults)
    lsc_calls = w.lscs[d.level].calls.get(d.id, [])
    stops = getattr(d, "_verif_stop_verdicts", [])
    now = val(d._active)
    if name in POP_ENGINES:
        if gsc_true:
            return now is False and not lsc_calls
        return len(lsc_calls) == 1 and now == (not lsc_calls[0])
    if name == "CMADeme":
        if gsc_true or any(stops[:-1]) or (stops and stops[-1] and not lsc_calls):
            return now is False
        # loop finished: active unless lsc or stop()
        ended_by = (lsc_calls and lsc_calls[-1]) or (stops and stops[-1])
        return now == (not ended_by)
    if name == "LocalDeme":
        return now is False
    if name in ("LHSDeme", "SobolDeme"):
        if gsc_true:
            return now is False
        return len(lsc_calls) == 1 and now == (not lsc_calls[0])
    return True


def _tree_invariant(P, w, tree):
    from pyhms.demes.initialize import CONFIG_CLASS_TO_DEME_CLASS

    height = len(tree.levels)
    P.oblige("C07.height", height == len(tree.config.levels))
    P.oblige("C07.single_root", len(tree.levels[0]) == 1 and tree.levels[0][0].id == "root" and tree.levels[0][0]._sprout_seed is None
             and tree.levels[0][0].level == 0)
    ids = [d.id for _, d in tree.all_demes]
    P.oblige("C07.unique_ids", len(ids) == len(set(ids)))
    for lvl, d in tree.all_demes:
        P.oblige("C07.level_membership", d.level == lvl)
        P.oblige("C07.engine_of_level", type(d) is CONFIG_CLASS_TO_DEME_CLASS[type(tree.config.levels[lvl])])
        P.oblige("C07.started_at_range", 0 <= d.started_at <= tree.metaepoch_count)
        parents = [p for _, p in tree.all_demes if any(c is d for c in p.children)]
        if lvl == 0:
            P.oblige("C07.root_has_no_parent", parents == [])
        else:
            P.oblige("C07.exactly_one_parent_one_level_up", len(parents) == 1 and parents[0].level == lvl - 1
                     and sum(1 for c in parents[0].children if c is d) == 1)
            if parents:
                P.oblige("C07.not_before_parent", d.started_at >= parents[0].started_at)
            P.oblige("C07.nonroot_has_seed", d._sprout_seed is not None)
        for c in d.children:
            P.oblige("C07.child_registered_in_level", lvl + 1 < height and any(c is x for x in tree.levels[lvl + 1]))
    P.oblige("C07.leaves_have_no_children", all(not d.children for d in tree.levels[-1]) or height == 1)


def _hibernation(P, w, tree, new_demes):
    height = len(tree.levels)
    if not w.hibernation:
        for _, d in tree.all_demes:
            P.oblige("C18.off_never_hibernates", d._hibernating is False or (d.id in w.pre and d._hibernating is w.pre[d.id]["hib"]
                                                                             and not is_sym(d._hibernating) and d._hibernating is False))
        return
    for lvl, d in new_demes:
        P.oblige("C18.newborn_awake", val(d._hibernating) is False)
    if w.round is None:
        # no sprouting round in this step: flags unchanged
        for did, pre in w.pre.items():
            P.oblige("C18.no_round_flags_unchanged", iff(pre["obj"]._hibernating, pre["hib"]))
        return
    for did, pre in w.pre.items():
        d = pre["obj"]
        act_at_round, hib_at_round, _ = w.round["snap"][did]
        took_part = val(act_at_round) and pre["level"] < height - 1
        if took_part:
            # "the round took a sprout from it" = a child of this deme was created by the round
            sprouted = any(c.id not in w.pre for c in d.children)
            P.oblige("C18.hibernating_iff_no_sprout_taken", val(d._hibernating) == (not sprouted))
        else:
            P.oblige("C18.flag_unchanged_when_not_in_round", iff(d._hibernating, hib_at_round))


def _counts(P, w, tree, when):
    total = 0
    for lvl in range(len(tree.levels)):
        s = sum(d.n_evaluations for d in tree.levels[lvl])
        total += s
        P.oblige(f"C03.level_sum_equals_calls.{when}", s == w.log.count(level=lvl))
    P.oblige(f"C03.tree_total_equals_sum.{when}", tree.n_evaluations == total)
    P.oblige(f"C03.tree_total_equals_calls.{when}", tree.n_evaluations == len(w.log.entries))


h_step.env_opts = {"rng": "real"}


# ---------------------------------------------------------------------------------------------------------------
# case catalogue shared by the tree-step properties
# ---------------------------------------------------------------------------------------------------------------

SHAPES_2 = [[[]], [[0]], [[0, 0]]]
SHAPES_3 = [[[0], []], [[0], [0]], [[0, 0], [0]], [[0, 0], [0, 1]], [[0], [0, 0]]]

TREE_BOUNDS = {
    "quick": {"levels": "2-3", "demes_per_nonroot_level": "<= 2 pre-existing (+ those sprouted in the step)", "generations": "1-2",
              "engines": "ea/de/shade/cma/local/lhs/sobol in the positions listed in cases", "dimension": 2,
              "population": 4, "level_limit_L": "1-2", "symbolic": "active/hibernating flags, gsc/lsc/cma-stop verdicts, generator offers",
              "concrete": "genomes, fitness values, RNG (seeded) - the real engines, cma and scipy run natively"},
    "thorough": {"levels": "2-3", "demes_per_nonroot_level": "<= 3", "generations": "1-3", "level_limit_L": "1-3"},
}
TREE_OUTSIDE = ["trees wider than the listed shapes", "non-monotone user stop conditions (C05 assumes once true stays true)",
                "what cma / scipy / the samplers do internally (they run for real on concrete numbers, one seed per case)"]
TREE_ASSUMPTIONS = ["pre-state: any assignment of active/hibernating flags with at most L active demes per non-root level on a "
                    "structure built by the real constructors (DemeTree(config), _do_sprout, warm-up metaepochs)",
                    "global stop condition verdicts arbitrary but monotone within the step"]


def tree_cases(prop, tier, hibernation_values=(False,), extra=None):
    cs = []

    def add(name, **params):
        params.setdefault("props", [prop])
        # vacuous_ok: the shared catalogue contains shapes in which a given property has nothing to say (e.g. C11 on an LHS root
        # without children); the per-property totals in the evidence show where its obligations were actually evaluated
        cs.append(dict(name=name, fn=h_step, params=params, profile="fp", budget_s=1200 if tier == "quick" else 3600,
                       max_paths=400000, oblig_timeout_s=60, weight=len(str(params.get("shape"))), vacuous_ok=True))

    two = [("ea", "cma"), ("ea", "local"), ("de", "ea"), ("shade", "cma"), ("lhs", "cma"), ("sobol", "de"), ("ea", "shade")]
    three = [("ea", "ea", "cma"), ("de", "ea", "local"), ("ea", "de", "cma")]
    if tier == "quick":
        two_shapes, three_shapes = [[[0]], [[0, 0]]], [[[0], [0]], [[0, 0], [0]], [[0], []]]
        three = three[:2]
    else:
        two_shapes, three_shapes = SHAPES_2 + [[[0, 0, 0]]], SHAPES_3
    for hib in hibernation_values:
        for kinds in two:
            for shape in two_shapes:
                width = max(len(s) for s in shape)
                combos = [(2, max(2, width))]
                if tier != "quick":
                    # thorough: vary generations and the level limit around the base point instead of taking the full product
                    combos += [(1, max(2, width)), (3, max(2, width))] if shape == [[0, 0]] else []
                    combos += [(2, L) for L in (1, 3) if L >= width and L != max(2, width)]
                for g, L in combos:
                    add(f"step.{'-'.join(kinds)}.shape{shape}.g{g}.L{L}.hib{hib}", kinds=list(kinds), shape=shape, generations=g, L=L,
                        hibernation=hib)
        for kinds in three:
            for shape in three_shapes:
                for g in ((2,) if tier == "quick" else (1, 2)):
                    L = max(2, max(len(s) for s in shape)) if tier == "quick" else 3
                    add(f"step.{'-'.join(kinds)}.shape{shape}.g{g}.L{L}.hib{hib}", kinds=list(kinds), shape=shape, generations=g, L=L,
                        hibernation=hib)
    if tier != "quick":
        # other concrete instances of the numbers: another seed, a larger population, three dimensions are not varied in quick
        for kinds, shape in ((("ea", "cma"), [[0, 0]]), (("de", "ea"), [[0, 0]]), (("shade", "cma"), [[0]]), (("ea", "ea", "cma"), [[0, 0], [0]]),
                             (("de", "ea", "local"), [[0], [0]])):
            for seed, pop in ((2, 4), (3, 6)):
                add(f"step.{'-'.join(kinds)}.shape{shape}.seed{seed}.pop{pop}", kinds=list(kinds), shape=shape, generations=2, L=2,
                    hibernation=hibernation_values[-1], seed=seed, pop=pop)
    # the shipped mechanisms end to end (their own generators, real filters)
    for mech in ("simple", "nbc"):
        add(f"step.ea-cma.{mech}", kinds=["ea", "cma"], shape=[[0]], generations=2, L=2, hibernation=hibernation_values[-1], mech=mech)
        add(f"step.ea-ea-cma.{mech}", kinds=["ea", "ea", "cma"], shape=[[0], [0]], generations=1, L=2, hibernation=hibernation_values[-1], mech=mech)
    # one parent sprouting several children in one round (user-composed mechanism without a per-deme limit)
    for hib in hibernation_values[:1]:
        add(f"step.ea-cma.multi-sprout.hib{hib}", kinds=["ea", "cma"], shape=[[0]], generations=1, L=3, hibernation=hib, deme_filters="none")
        add(f"step.ea-ea-cma.multi-sprout.hib{hib}", kinds=["ea", "ea", "cma"], shape=[[0], [0]], generations=1, L=3, hibernation=hib, deme_filters="none")
    # plateau objective (exact ties, zero gradients: local searches that finish without a single iterate)
    add("step.ea-local.terrace", kinds=["ea", "local"], shape=[[0, 0]], generations=1, L=3, hibernation=hibernation_values[0], objective="terrace")
    add("step.ea-cma.terrace", kinds=["ea", "cma"], shape=[[0]], generations=2, L=2, hibernation=hibernation_values[0], objective="terrace")
    add("step.ea-ea-cma.terrace", kinds=["ea", "ea", "cma"], shape=[[0, 0], [0]], generations=1, L=2, hibernation=hibernation_values[0], objective="terrace",
        deme_filters="none")
    # the other SEA-family engines as root / intermediate levels
    for kinds in ((("ga", "cma"), ("mwea", "cma"), ("sea-xover", "cma")) if tier == "quick" else (("ga", "cma"), ("mwea", "cma"), ("sea-xover", "de"), ("sea-adaptive", "cma"), ("ea", "ga", "cma"))):
        shape = [[0]] if len(kinds) == 2 else [[0], [0]]
        add(f"step.{'-'.join(kinds)}.variant", kinds=list(kinds), shape=shape, generations=2, L=2, hibernation=hibernation_values[0])
    # shipped local stop condition reading the deme's own history (symbolic limit)
    for kinds in ((("ea", "shade"), ("de", "cma")) if tier == "quick" else (("ea", "shade"), ("de", "cma"), ("shade", "ea"), ("lhs", "de"), ("ea", "ea", "cma"))):
        shape = [[0, 0]] if len(kinds) == 2 else [[0], [0]]
        add(f"step.{'-'.join(kinds)}.lsc-metaepochlimit", kinds=list(kinds), shape=shape, generations=2, L=2, hibernation=hibernation_values[0],
            lsc="MetaepochLimit:sym")
    add("step.ea-ea-cma.lsc-allchildrenstopped", kinds=["ea", "ea", "cma"], shape=[[0, 0], [0]], generations=1, L=2, hibernation=hibernation_values[0],
        lsc="AllChildrenStopped")
    add("step.de-shade.lsc-fitnesssteadiness", kinds=["de", "shade"], shape=[[0, 0]], generations=2, L=2, hibernation=hibernation_values[0],
        lsc="FitnessSteadiness", warm=2)
    # shipped evaluation-based global stop conditions with a symbolic budget, from an arbitrary flag state
    for g in ("SingularProblemEvalLimitReached:sym", "FitnessEvalLimitReachedRoot:sym"):
        add(f"step.ea-cma.gsc-{g}", kinds=["ea", "cma"], shape=[[0, 0]], generations=2, L=2, hibernation=hibernation_values[0], gsc=g)
        add(f"step.de-ea-cma.gsc-{g}", kinds=["de", "ea", "cma"], shape=[[0], [0]], generations=2, L=2, hibernation=hibernation_values[0], gsc=g)
    # more than two generations per metaepoch
    for kinds in (("de", "cma"), ("ea", "cma"), ("shade", "cma")):
        add(f"step.{'-'.join(kinds)}.g3", kinds=list(kinds), shape=[[0]], generations=3, L=2, hibernation=hibernation_values[0])
    if extra:
        extra(add)
    return cs


def h_conditions(P, kinds, shape, hibernation=False):
    """Every shipped stop condition returns exactly its documented predicate on an arbitrary flag state (symbolic flags, symbolic
    limits), read from the real tree."""
    from pyhms import stop_conditions as sc
    from pyhms.stop_conditions.gsc import WeightingStrategy

    w = build(P, kinds, shape, L=3, hibernation=hibernation, generations=1, mech="stub", warm=1)
    tree = w.tree
    go_symbolic(w)
    w.gsc.symbolic = False
    flags = {d.id: d._active for _, d in tree.all_demes}
    P.oblige("gsc.RootStopped", iff(sc.RootStopped()(tree), lnot(tree.root._active)))
    P.oblige("gsc.AllStopped", iff(sc.AllStopped()(tree), lnot(lor(*flags.values()))))
    n = P.int("limit", 0, 400)
    total = sum(d.n_evaluations for _, d in tree.all_demes)
    P.oblige("gsc.SingularProblemEvalLimitReached", iff(sc.SingularProblemEvalLimitReached(n)(tree), total >= n))
    P.oblige("gsc.FitnessEvalLimitReached.equal", iff(sc.FitnessEvalLimitReached(n)(tree), total >= n))
    root_only = sum(d.n_evaluations for d in tree.levels[0])
    P.oblige("gsc.FitnessEvalLimitReached.root", iff(sc.FitnessEvalLimitReached(n, weights=WeightingStrategy.ROOT)(tree), root_only >= n))
    wts = [2, 0, 3][: len(tree.levels)]
    weighted = sum(wts[lvl] * d.n_evaluations for lvl, d in tree.all_demes)
    P.oblige("gsc.FitnessEvalLimitReached.weights", iff(sc.FitnessEvalLimitReached(n, weights=list(wts))(tree), weighted >= n))
    # fractional weights: the documented quantity is the exact weighted sum (no per-deme truncation)
    fw = [1, 0.3, 0.7][: len(tree.levels)]
    fweighted = sum(fw[lvl] * d.n_evaluations for lvl, d in tree.all_demes)
    P.oblige("gsc.FitnessEvalLimitReached.fractional_weights", iff(sc.FitnessEvalLimitReached(n, weights=list(fw))(tree), fweighted >= n))
    m = P.int("mlimit", 0, 6)
    P.oblige("usc.MetaepochLimit.tree", iff(sc.MetaepochLimit(m)(tree), tree.metaepoch_count >= m))
    for _, d in tree.all_demes:
        P.oblige("usc.MetaepochLimit.deme", iff(sc.MetaepochLimit(m)(d), (len(d._history) - 1) >= m))
        kids = d.children
        P.oblige("lsc.AllChildrenStopped", iff(sc.AllChildrenStopped()(d), land(len(kids) > 0, lnot(lor(*[k._active for k in kids])) if kids else False)))
    P.oblige("usc.DontStop_DontRun", sc.DontStop()(tree) is False and sc.DontRun()(tree) is True)
    k = P.int("nmeta", 0, 4)
    step = tree.metaepoch_count
    conds = []
    for lvl in range(1, len(tree.levels)):
        if len(tree.levels[lvl]) == 0:
            conds.append(False)
        for d in tree.levels[lvl]:
            conds.append(land(lnot(d._active), lnot(step <= d.started_at + (len(d._history) - 1) + k)))
    want = land(*conds) if conds else True
    P.oblige("gsc.NoActiveNonrootDemes", iff(sc.NoActiveNonrootDemes(k)(tree), want))


h_conditions.env_opts = {"rng": "real"}


def condition_cases(tier):
    cs = []
    shapes = [(("ea", "cma"), [[0, 0]]), (("ea", "ea", "cma"), [[0, 0], [0]])]
    if tier != "quick":
        shapes += [(("de", "ea", "local"), [[0], [0, 0]]), (("ea", "cma"), [[]]), (("ea", "ea", "cma"), [[0], []])]
    for kinds, shape in shapes:
        cs.append(dict(name=f"conditions.{'-'.join(kinds)}.shape{shape}", fn=h_conditions, params=dict(kinds=list(kinds), shape=shape),
                       profile="fp", budget_s=900, weight=5))
    return cs


def _best(P, w, tree, best_so_far, maximize):
    allinds = [ind for _, d in tree.all_demes for gen in d.history for ind in gen]
    tb = tree.best_individual
    better = (lambda a, b: a > b) if maximize else (lambda a, b: a < b)
    P.oblige("C04.tree_best_is_member", any(tb is x for x in allinds))
    P.oblige("C04.tree_best_is_best", not any(better(x.fitness, tb.fitness) for x in allinds))
    for _, d in tree.all_demes:
        db = d.best_individual
        mine = [ind for gen in d.history for ind in gen]
        P.oblige("C04.deme_best_is_member_and_best", any(db is x for x in mine) and not any(better(x.fitness, db.fitness) for x in mine))
    P.oblige("C04.best_never_worsens", not better(best_so_far[0], tb.fitness))
    best_so_far[0] = tb.fitness
    # the best equals the best objective value ever observed (all engines except the local optimiser)
    if "local" not in w.kinds:
        vals = [e[3] for e in w.log.entries]
        P.oblige("C04.best_is_best_ever_evaluated", tb.fitness == (max(vals) if maximize else min(vals)))



def pure_objective(w, level, x):
    """the recording objective's formula, evaluated without logging"""
    return w.log.value(x)


def metaepoch_digests(d):
    import hashlib
    out = []
    for me in d._history:
        h = hashlib.sha256()
        for gen in me:
            h.update(b"|G")
            for ind in gen:
                h.update(np.asarray(ind.genome, dtype=np.float64).tobytes())
                h.update(np.float64(ind.fitness).tobytes())
        out.append(h.hexdigest())
    return out


def _c02_end_to_end(P, w, tree):
    seen = w.__dict__.setdefault("_c02_digests", {})
    for lvl, d in tree.all_demes:
        for gen in d.history:
            for ind in gen:
                ok = ind.fitness == pure_objective(w, lvl, ind.genome) or abs(ind.fitness) == np.inf
                P.oblige("C02.stored_fitness_is_objective_of_stored_genome", bool(ok))
        if d._sprout_seed is not None:
            s = d._sprout_seed
            P.oblige("C02.seed_fitness_is_objective_of_seed_genome", bool(s.fitness == pure_objective(w, lvl - 1, s.genome)))
        now = metaepoch_digests(d)
        old = seen.get(d.id)
        if old is not None:
            P.oblige("C02.recorded_generations_never_change", now[: len(old)] == old)
        seen[d.id] = now


def _c12_histories(P, w, tree, maximize):
    """Along the real histories: constant population size, best never worsens between consecutive generations (elitist engines),
    k-th best never worsens (DE / SHADE)."""
    better = (lambda a, b: a > b) if maximize else (lambda a, b: a < b)
    for lvl, d in tree.all_demes:
        name = type(d).__name__
        if name not in ("EADeme", "DEDeme", "SHADEDeme", "CMADeme"):
            continue
        gens = d.history
        sizes = {len(g) for g in gens}
        P.oblige("C12.population_size_constant", len(sizes) == 1 and (name == "CMADeme" or sizes == {d._pop_size}))
        if name == "CMADeme" or type(getattr(d, "_ea", None)).__name__ == "MWEA":
            continue  # CMA-ES and MWEA are not elitist (the property names SEA variants with >= 1 elite, DE, SHADE)
        for a, b in zip(gens, gens[1:]):
            fa = sorted((x.fitness for x in a), reverse=maximize)
            fb = sorted((x.fitness for x in b), reverse=maximize)
            P.oblige("C12.best_never_worsens_between_generations", not better(fa[0], fb[0]))
            if name in ("DEDeme", "SHADEDeme"):
                P.oblige("C12.kth_best_never_worsens", all(not better(x, y) for x, y in zip(fa, fb)))
