"""C15 - nearest-better clustering returns exactly the defined cluster seeds.

Real code executed: NearestBetterClustering.__init__/cluster/_prepare_spanning_tree/_find_nearest_better/_find_root_nodes/distances
and NBC_Generator's exported mean, on symbolic populations.  Profile 'real' (Euclidean geometry over the reals; d=2 norms via an
auxiliary root).  Oracle: the definition in the property, stated relationally over the same symbols.
"""
import numpy as np

from symx.core import land, lor, implies, lnot, ite, iff, is_sym
from ._pop import mk_problem, mk_inds, not_worse, strictly_better

PROPERTY = "C15"


def _dist(a, b, d):
    if d == 1:
        return abs(a.genome[0] - b.genome[0])
    from symx import arr
    s = (a.genome[0] - b.genome[0]) * (a.genome[0] - b.genome[0])
    for j in range(1, d):
        s = s + (a.genome[j] - b.genome[j]) * (a.genome[j] - b.genome[j])
    return arr._sqrt(s)


def _distinct(P, inds, d):
    for i in range(len(inds)):
        for j in range(i + 1, len(inds)):
            P.assume(lor(*[inds[i].genome[t] != inds[j].genome[t] for t in range(d)]), "genomes pairwise distinct")


def h_spec(P, n, d=1, keep=None, concrete_factor=None, close_pair=False):
    from pyhms.core.individual import Individual
    from pyhms.utils.clusterization import NearestBetterClustering

    prob, F, maximize, bounds = mk_problem(P, d)
    if close_pair:
        # hunt mode: two distinct genomes closer than numpy's printed precision (real float64 arrays), symbolic fitness
        base = [np.array([0.5 + 0.25 * i] * d) for i in range(n)]
        base[1] = base[0] + 1e-11
        inds = [Individual(base[i], prob, P.float(f"f{i}", nn=True)) for i in range(n)]
    else:
        inds = mk_inds(P, prob, n, d, "x")
        _distinct(P, inds, d)
    factor = P.float("factor", finite=True, lo=0.001) if concrete_factor is None else concrete_factor
    m = n if keep is None else keep
    trunc = 1.0 if keep is None else (keep + 0.5) / n
    if m < n:
        for i in range(n):
            for j in range(i + 1, n):
                P.assume(inds[i].fitness != inds[j].fitness, "pairwise distinct fitness when truncating (tie-break at the cut is unspecified)")
    nbc = NearestBetterClustering(inds, factor, trunc)
    result = nbc.cluster()
    kept = nbc.individuals
    P.oblige("nbc.truncation_count", len(kept) == m)
    P.oblige("nbc.truncation_keeps_best", all(any(k is x for x in inds) for k in kept))
    dropped = [x for x in inds if not any(x is k for k in kept)]
    for x in dropped:
        for k in kept:
            P.oblige("nbc.truncation_keeps_best", lnot(strictly_better(x.fitness, k.fitness, maximize)))
    root = kept[0]
    for k in kept:
        P.oblige("nbc.root_is_a_best", not_worse(root.fitness, k.fitness, maximize))
    # node data (individual -> recorded nearest-better distance)
    nodes = {id(nd.data["individual"]): nd.data["distance"] for nd in nbc.tree.all_nodes()}
    P.oblige("nbc.every_kept_individual_has_a_node", all(id(k) in nodes for k in kept) and len(nodes) == len(kept))
    dists = []
    for k in kept:
        if k is root or id(k) not in nodes:
            continue
        dk = nodes[id(k)]
        dists.append(dk)
        tied_with_best = k.fitness == root.fitness
        better = [j for j in kept if j is not k]
        # attaches to the best when tied with it; otherwise to its nearest strictly better individual
        is_some = lor(*[land(strictly_better(j.fitness, k.fitness, maximize), dk == _dist(k, j, d)) for j in better])
        is_min = land(*[implies(strictly_better(j.fitness, k.fitness, maximize), dk <= _dist(k, j, d)) for j in better])
        P.oblige("nbc.nearest_better_distance", ite(tied_with_best, dk == _dist(k, root, d), land(is_some, is_min))
                 if is_sym(tied_with_best) else (dk == _dist(k, root, d) if tied_with_best else land(is_some, is_min)))
    P.oblige("nbc.distances_property", len(nbc.distances) == len(dists))
    # result = {best} + {i : d_i > factor * mean(d)}
    in_result = lambda x: any(x is r for r in result)
    P.oblige("nbc.best_is_returned", in_result(root))
    P.oblige("nbc.result_has_no_duplicates_and_is_subset", len({id(r) for r in result}) == len(result) and all(any(r is k for k in kept) for r in result))
    if dists:
        total = dists[0]
        for x in dists[1:]:
            total = total + x
        mean = total / float(len(dists))
        for k in kept:
            if k is root or id(k) not in nodes:
                continue
            cut = nodes[id(k)] > factor * mean
            P.oblige("nbc.cut_rule", iff(cut, in_result(k)) if is_sym(cut) else (bool(cut) == in_result(k)))


def h_generator_mean(P, n=3):
    from pyhms.sprout.sprout_generators import NBC_Generator
    from pyhms.utils.clusterization import NearestBetterClustering
    from ._fake import mk_deme, mk_tree

    prob, F, maximize, bounds = mk_problem(P, 1)
    inds = mk_inds(P, prob, n, 1, "x")
    _distinct(P, inds, 1)
    deme = mk_deme("root", 0, population=inds)
    tree = mk_tree([[deme], []])
    out = NBC_Generator(2.0, 1.0)(tree)
    nbc = NearestBetterClustering(inds, 2.0, 1.0)
    res = nbc.cluster()
    ds = nbc.distances
    total = ds[0]
    for x in ds[1:]:
        total = total + x
    P.oblige("generator.exports_mean_nearest_better_distance", out[deme].features.nbc_mean_distance == total / float(len(ds)))
    P.oblige("generator.offers_the_cluster_seeds", len(out[deme].individuals) == len(res) and all(a is b for a, b in zip(out[deme].individuals, res)))


def h_metamorphic(P, n, which, d=1):
    from pyhms.core.individual import Individual
    from pyhms.utils.clusterization import NearestBetterClustering

    prob, F, maximize, bounds = mk_problem(P, d)
    inds = mk_inds(P, prob, n, d, "x")
    _distinct(P, inds, d)
    for i in range(n):
        for j in range(i + 1, n):
            P.assume(inds[i].fitness != inds[j].fitness, "pairwise distinct fitness (metamorphic relations)")
    factor = P.float("factor", finite=True, lo=0.001)
    base = NearestBetterClustering(inds, factor, 1.0).cluster()
    base_idx = sorted(i for i, x in enumerate(inds) if any(x is r for r in base))
    if which == "permute":
        perm = list(range(n))[1:] + [0]
        other = [inds[i] for i in perm]
        res = NearestBetterClustering(other, factor, 1.0).cluster()
        idx = sorted(i for i, x in enumerate(inds) if any(x is r for r in res))
    else:
        if which == "translate":
            t = P.floats("t", (d,), finite=True)
            other = [Individual(x.genome + t, prob, x.fitness) for x in inds]
        else:
            other = [Individual(x.genome * 2.0, prob, x.fitness) for x in inds]
        res = NearestBetterClustering(other, factor, 1.0).cluster()
        idx = sorted(i for i, x in enumerate(other) if any(x is r for r in res))
    P.oblige(f"nbc.invariant_under_{which}", idx == base_idx)


BOUNDS = {"quick": {"n": "2-3 (d=1), 3 (d=2)", "truncation": "keep all / keep n-1 / keep 1", "factor": "symbolic > 0"},
          "thorough": {"n": "2-4 (d=1), 3 (d=2)"}}
OUTSIDE = ["n > 4, d > 2", "rounding-level differences between equal real distances", "NearestBetterClusteringWithRule2, use_correction=True",
           "tie-break among equal fitness values at the truncation cut"]
ASSUMPTIONS = ["profile 'real': genomes, distances and fitness are mathematical reals",
               "node identifiers of distinct individuals are distinct (decided separately in hunt mode on real float64 arrays closer than the printed precision)"]


def cases(tier):
    R = dict(profile="real", budget_s=2400, oblig_timeout_s=120)
    cs = [
        dict(name="spec.n2.d1", fn=h_spec, params=dict(n=2, d=1), **R),
        dict(name="spec.n3.d1", fn=h_spec, params=dict(n=3, d=1), weight=5, **R),
        dict(name="spec.n3.d1.keep2", fn=h_spec, params=dict(n=3, d=1, keep=2), weight=3, **R),
        dict(name="spec.n2.d1.keep1", fn=h_spec, params=dict(n=2, d=1, keep=1, concrete_factor=2.0), **R),
        dict(name="spec.n3.d1.keep1", fn=h_spec, params=dict(n=3, d=1, keep=1, concrete_factor=2.0), **R),
        dict(name="ids.close_pair.n3", fn=h_spec, params=dict(n=3, d=1, close_pair=True), **R),
        dict(name="ids.close_pair.n3.d2", fn=h_spec, params=dict(n=3, d=2, close_pair=True), **R),
        dict(name="generator.mean.n3", fn=h_generator_mean, params=dict(n=3), **R),
        dict(name="metamorphic.permute.n3", fn=h_metamorphic, params=dict(n=3, which="permute"), weight=5, **R),
        dict(name="metamorphic.translate.n3", fn=h_metamorphic, params=dict(n=3, which="translate"), weight=5, **R),
        dict(name="metamorphic.scale.n3", fn=h_metamorphic, params=dict(n=3, which="scale"), weight=5, **R),
        dict(name="metamorphic.permute.n4", fn=h_metamorphic, params=dict(n=4, which="permute"), weight=40, **R),
    ]
    if tier == "thorough":
        cs += [dict(name="spec.n3.d2", fn=h_spec, params=dict(n=3, d=2), weight=60, soft=["nbc.*"], optional=True, **R),
               dict(name="spec.n4.d1", fn=h_spec, params=dict(n=4, d=1), weight=50, **R),
               dict(name="spec.n4.d1.keep3", fn=h_spec, params=dict(n=4, d=1, keep=3), weight=30, **R),
               dict(name="metamorphic.translate.n4", fn=h_metamorphic, params=dict(n=4, which="translate"), weight=40, **R),
               dict(name="metamorphic.translate.n3.d2", fn=h_metamorphic, params=dict(n=3, which="translate", d=2), weight=40, soft=["nbc.*"], **R)]
    return cs
