"""C18 - hibernation suspends exactly the demes that did not sprout; sleeping is free; off means never.
Decided on one real DemeTree.run_step / run_sprout from a symbolic-flag state (see tstep.py / _tree.py)."""
from .trun import run_cases
from .tstep import tree_cases, TREE_BOUNDS as BOUNDS, TREE_OUTSIDE as OUTSIDE, TREE_ASSUMPTIONS as ASSUMPTIONS

PROPERTY = "C18"


def cases(tier):
    return tree_cases(PROPERTY, tier, hibernation_values=(True, False, None)) + run_cases(PROPERTY, tier)
