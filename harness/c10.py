"""C10 - candidates come from the right populations; filters only remove and keep the best.

Real code executed: DemeLimit, LevelLimit, SkipSameSprout, BestPerDeme, NBC_Generator, SproutMechanism.get_seeds on directly
constructed trees with symbolic fitness / activity flags / genomes.  Profile 'real' (ordering, isclose): floats as reals.
"""
import numpy as np

from symx.core import land, lor, implies, lnot, ite, iff, is_sym
from ._fake import mk_deme, mk_tree
from ._pop import mk_problem, mk_inds, not_worse, strictly_better

PROPERTY = "C10"


def _cands(mapping):
    from pyhms.sprout.sprout_candidates import DemeCandidates, DemeFeatures

    return {d: DemeCandidates(individuals=list(inds), features=DemeFeatures(nbc_mean_distance=1.0)) for d, inds in mapping.items()}


def h_demelimit(P, n, limit):
    from pyhms.sprout.sprout_filters import DemeLimit

    prob, F, maximize, bounds = mk_problem(P, 1)
    inds = mk_inds(P, prob, n, 1, "c")
    deme = mk_deme("root", 0)
    out = DemeLimit(limit)(_cands({deme: inds}), None)
    kept = out[deme].individuals
    P.oblige("demelimit.count", len(kept) == min(limit, n))
    P.oblige("demelimit.subset", all(any(k is x for x in inds) for k in kept) and len({id(k) for k in kept}) == len(kept))
    dropped = [x for x in inds if not any(x is k for k in kept)]
    for x in dropped:
        for k in kept:
            P.oblige("demelimit.keeps_best", lnot(strictly_better(x.fitness, k.fitness, maximize)))


def h_levellimit(P, offered, existing, L, distinct=False, maybe_nan=False):
    """offered: candidates per parent deme on level 0..; existing: number of demes already on the target level (symbolic activity)."""
    from pyhms.sprout.sprout_filters import LevelLimit

    prob, F, maximize, bounds = mk_problem(P, 1)
    parents = [mk_deme(f"p{i}", 0) for i in range(len(offered))]
    allc = {}
    for i, (p, n) in enumerate(zip(parents, offered)):
        allc[p] = mk_inds(P, prob, n, 1, f"c{i}_")
    if maybe_nan:
        # bit-precise profile: one candidate may carry a NaN fitness (an objective that failed), which ranks below every number
        from pyhms.core.individual import Individual
        from symx.core import isnan as _isnan
        bad = allc[parents[0]][0]
        allc[parents[0]][0] = Individual(bad.genome, prob, P.float("maybe_nan_fitness", nn=False))
    flags = [P.bool(f"act{j}") for j in range(existing)]
    children = [mk_deme(f"k{j}", 1, active=flags[j]) for j in range(existing)]
    # the existing demes belong to real parents: the first to a sprouting parent, the others to a parent that offers nothing
    silent = mk_deme("px", 0, active=False)
    for j, ch in enumerate(children):
        (parents[0] if j == 0 else silent)._children.append(ch)
    from ._tree import count_true

    n_active = count_true(flags)
    P.assume(n_active <= L, "pre-state: at most L active demes on the target level")
    flat = [x for p in parents for x in allc[p]]
    if distinct:
        for a in range(len(flat)):
            for b in range(a + 1, len(flat)):
                P.assume(flat[a].fitness != flat[b].fitness)
    tree = mk_tree([parents + [silent], children])
    out = LevelLimit(L)(_cands(allc), tree)
    kept = [k for p in parents for k in out[p].individuals]
    for p in parents:
        P.oblige("levellimit.subset", all(any(k is x for x in allc[p]) for k in out[p].individuals))
    P.oblige("C08.levellimit_free_slots", len(kept) + n_active <= L)
    dropped = [x for x in flat if not any(x is k for k in kept)]
    for x in dropped:
        for k in kept:
            P.oblige("levellimit.keeps_best", lnot(strictly_better(x.fitness, k.fitness, maximize)))
    if distinct:
        free = L - n_active
        want = ite(free <= len(flat), free, len(flat)) if is_sym(free) else min(free, len(flat))
        P.oblige("levellimit.fills_free_slots_when_distinct", len(kept) == want)


def h_levellimit3(P, L):
    """Three levels: candidates from the root (target level 1) and from a level-1 deme (target level 2) in the same round; each level
    is limited independently."""
    from pyhms.sprout.sprout_filters import LevelLimit
    from ._tree import count_true

    prob, F, maximize, bounds = mk_problem(P, 1)
    root = mk_deme("root", 0)
    mids = [mk_deme(str(j), 1, active=P.bool(f"act1_{j}")) for j in range(2)]
    leaves = [mk_deme(f"0/{j}", 2, active=P.bool(f"act2_{j}")) for j in range(2)]
    root._children = list(mids)
    mids[0]._children = list(leaves)
    P.assume(count_true([m._active for m in mids]) <= L)
    P.assume(count_true([l._active for l in leaves]) <= L)
    offered = {root: mk_inds(P, prob, 2, 1, "r"), mids[0]: mk_inds(P, prob, 2, 1, "m")}
    tree = mk_tree([[root], mids, leaves])
    out = LevelLimit(L)(_cands(offered), tree)
    for parent, level_demes in ((root, mids), (mids[0], leaves)):
        kept = out[parent].individuals
        mine = offered[parent]
        n_active = count_true([d._active for d in level_demes])
        P.oblige("levellimit.subset", all(any(k is x for x in mine) for k in kept))
        P.oblige("C08.levellimit_free_slots", len(kept) + n_active <= L)
        dropped = [x for x in mine if not any(x is k for k in kept)]
        for x in dropped:
            for k in kept:
                P.oblige("levellimit.keeps_best", lnot(strictly_better(x.fitness, k.fitness, maximize)))
        # a level with room for all its candidates loses none of them, whatever happens on the other level
        roomy = (n_active + len(mine)) <= L
        P.oblige("levellimit.levels_are_independent", implies(roomy, len(kept) == len(mine)) if is_sym(roomy) else ((not roomy) or len(kept) == len(mine)))


def h_skipsame(P, n_cands, n_seeds, d=1):
    from pyhms.core.individual import Individual
    from pyhms.sprout.sprout_filters import SkipSameSprout

    prob, F, maximize, bounds = mk_problem(P, d, maximize=False)
    cands = mk_inds(P, prob, n_cands, d, "c")
    seeds = mk_inds(P, prob, n_seeds, d, "s")
    parent = mk_deme("root", 0)
    kids = [mk_deme(str(j), 1, seed=s) for j, s in enumerate(seeds)]
    parent._children = list(kids)
    tree = mk_tree([[parent], kids])
    out = SkipSameSprout()(_cands({parent: cands}), tree)
    kept = out[parent].individuals

    def close(a, b):
        return land(*[abs(a.genome[j] - b.genome[j]) <= 1e-08 + 1e-05 * abs(b.genome[j]) for j in range(d)])

    P.oblige("skipsame.subset", all(any(k is x for x in cands) for k in kept))
    for x in cands:
        is_kept = any(x is k for k in kept)
        same_as_some_seed = lor(*[close(s, x) for s in seeds]) if seeds else False
        # np.isclose(seeds, cand): |seed - cand| <= atol + rtol*|cand|
        if is_kept:
            P.oblige("skipsame.no_duplicate_let_through", lnot(same_as_some_seed))
        else:
            P.oblige("skipsame.only_duplicates_rejected", same_as_some_seed)


def h_generators(P, gen, n_pop, d=1):
    """Generators on a 3-level tree with symbolic activity: keys = active non-leaf demes; individuals from current populations."""
    from pyhms.sprout import sprout_generators as sg

    prob, F, maximize, bounds = mk_problem(P, d)
    demes = []
    levels = [[], [], []]
    for lvl, ids in enumerate([["root"], ["0", "1"], ["0/0"]]):
        for i in ids:
            pop = mk_inds(P, prob, n_pop, d, f"{i.replace('/', '_')}_")
            older = mk_inds(P, prob, 1, d, f"{i.replace('/', '_')}_old")  # an earlier generation (possibly holding the best ever)
            dm = mk_deme(i, lvl, active=P.bool(f"act.{i}"), population=older)
            dm._history.append([list(pop)])
            levels[lvl].append(dm)
    tree = mk_tree(levels)
    if gen == "best":
        g = sg.BestPerDeme()
    elif gen == "nbc-local":
        g = sg.NBCGeneratorWithLocalMethod(2.0, 1.0)
    else:
        g = sg.NBC_Generator(2.0, 1.0)
    if gen == "nbc-local":
        # levels[:-2] as the NBC generator; last-but-one level: the best of every deme that finished in this very metaepoch
        tree.metaepoch_count = 2
        for dm in levels[1]:
            dm._started_at = 1 if dm.id == "0" else 0  # '0' finished just now (1 + 1 recorded metaepoch == 2), '1' earlier
        pop = levels[0][0].current_population
        for a in range(len(pop)):
            for b in range(a + 1, len(pop)):
                P.assume(lor(*[pop[a].genome[j] != pop[b].genome[j] for j in range(d)]))
        out = g(tree)
        want = [levels[0][0]] if bool(levels[0][0]._active) else []
        for dm in levels[1]:
            if (not bool(dm._active)) and dm.started_at + len(dm._history) == tree.metaepoch_count:
                want.append(dm)
        P.oblige("generator.keys_local_method", set(id(k) for k in out.keys()) == set(id(e) for e in want))
        for dm, cnd in out.items():
            if dm.level == 1:
                P.oblige("generator.local_offers_best_of_finished_deme", len(cnd.individuals) == 1 and cnd.individuals[0] is dm.best_individual)
                for y in dm.all_individuals:
                    P.oblige("generator.local_best_is_best", not_worse(cnd.individuals[0].fitness, y.fitness, maximize))
            else:
                P.oblige("generator.candidates_from_current_population", all(any(x is y for y in dm.current_population) for x in cnd.individuals))
        return
    if gen != "best":
        for lvl in levels[:2]:
            for dm in lvl:
                pop = dm.current_population
                for a in range(len(pop)):
                    for b in range(a + 1, len(pop)):
                        P.assume(lor(*[pop[a].genome[j] != pop[b].genome[j] for j in range(d)]))
    out = g(tree)
    expected = [dm for lvl in levels[:2] for dm in lvl if bool(dm._active)]
    P.oblige("generator.keys_are_active_nonleaf_demes", set(id(k) for k in out.keys()) == set(id(e) for e in expected))
    for dm, c in out.items():
        pop = dm.current_population
        P.oblige("generator.candidates_from_current_population", all(any(x is y for y in pop) for x in c.individuals))
        if gen == "best":
            P.oblige("bestperdeme.exactly_one", len(c.individuals) == 1)
            for y in pop:
                P.oblige("bestperdeme.is_current_best", not_worse(c.individuals[0].fitness, y.fitness, maximize))
        else:
            P.oblige("nbc_generator.mean_distance_exported", c.features.nbc_mean_distance is not None)
            # the exported feature is the mean nearest-better distance of THIS deme's own current population
            from pyhms.utils.clusterization import NearestBetterClustering
            own = NearestBetterClustering(pop, 2.0, 1.0)
            own.cluster()
            ds = own.distances
            if ds:
                total = ds[0]
                for x in ds[1:]:
                    total = total + x
                P.oblige("nbc_generator.mean_distance_of_own_population", c.features.nbc_mean_distance == total / float(len(ds)))


def h_first_round(P, n, L):
    """First sprouting round (the tree is just the root): the composed mechanism already honours the level limit."""
    from pyhms.sprout import sprout_filters as sf, sprout_generators as sg
    from pyhms.sprout.sprout_mechanisms import SproutMechanism

    prob, F, maximize, bounds = mk_problem(P, 1)
    root = mk_deme("root", 0, active=True, population=mk_inds(P, prob, n, 1, "r"))

    class Gen(sg.SproutCandidatesGenerator):
        def __call__(self, tree):
            return _cands({root: list(root.current_population)})

    mech = SproutMechanism(Gen(), [], [sf.LevelLimit(L)])
    out = mech.get_seeds(mk_tree([[root], []]))
    kept = out[root].individuals if root in out else []
    P.oblige("C08.first_round_within_limit", len(kept) <= L)
    P.oblige("chain.filters_only_remove", all(any(x is y for y in root.current_population) for x in kept))


def h_chain(P, n, L):
    """Composed get_seeds (real SproutMechanism): output is a sub-set of the generated candidates per parent; empty parents absent."""
    from pyhms.sprout import sprout_filters as sf, sprout_generators as sg
    from pyhms.sprout.sprout_mechanisms import SproutMechanism

    prob, F, maximize, bounds = mk_problem(P, 1)
    p0 = mk_deme("root", 0, active=True, population=mk_inds(P, prob, n, 1, "r"))
    kids = [mk_deme(str(j), 1, active=P.bool(f"act{j}"), population=mk_inds(P, prob, 2, 1, f"k{j}_")) for j in range(2)]
    from ._tree import count_true
    P.assume(count_true([k._active for k in kids]) <= L)

    class Gen(sg.SproutCandidatesGenerator):
        def __call__(self, tree):
            return _cands({p0: list(p0.current_population)})

    mech = SproutMechanism(Gen(), [sf.FarEnough(0.5, 2), sf.DemeLimit(2)], [sf.LevelLimit(L), sf.SkipSameSprout()])
    tree = mk_tree([[p0], kids])
    out = mech.get_seeds(tree)
    for dm, c in out.items():
        P.oblige("chain.nonempty_entries_only", len(c.individuals) > 0)
        P.oblige("chain.filters_only_remove", dm is p0 and all(any(x is y for y in p0.current_population) for x in c.individuals))
    kept = out[p0].individuals if p0 in out else []
    P.oblige("C08.chain_free_slots", len(kept) + count_true([k._active for k in kids]) <= L)


BOUNDS = {"quick": {"demelimit": "n<=4, limit 1..3", "levellimit": "<=2 parents x <=2 candidates, <=3 existing demes, L 1..3",
                    "skipsame": "<=2 candidates, <=2 seeds, d<=2", "generators": "3-level tree, 4 demes, populations of 2-3"},
          "thorough": {"demelimit": "n<=5", "levellimit": "<=3 parents x <=2 candidates"}}
OUTSIDE = ["MahalanobisFarEnough",
           "candidate sets larger than the bounds"]
ASSUMPTIONS = ["profile 'real': fitness values and genomes are mathematical reals (ordering and np.isclose only; no NaN, +-inf only as order-extreme values)"]


def cases(tier):
    cs = []
    R = dict(profile="real", budget_s=1500)
    for n in ((2, 3, 4) if tier == "quick" else (2, 3, 4, 5)):
        for limit in (1, 2, 3):
            cs.append(dict(name=f"demelimit.n{n}.l{limit}", fn=h_demelimit, params=dict(n=n, limit=limit), weight=n, **R))
    shapes = [([2], 0), ([2], 2), ([1, 2], 1), ([2, 2], 2), ([2, 2], 3)] if tier == "quick" else \
        [([2], 0), ([3], 1), ([2], 2), ([1, 2], 1), ([2, 2], 2), ([2, 2], 3), ([1, 1, 2], 2), ([2, 2, 1], 3)]
    # (a possibly-NaN candidate is NOT part of the case list: NaN objective values are outside every claim - NaN is pyhms' own "not yet
    #  evaluated" marker - and on the real code worse_than(nan, nan) is a coin flip, so 'ind > first_rejected' for a NaN candidate that is
    #  itself the first rejected one is random; the harness parameter maybe_nan exists for experiments only)
    for offered, existing in shapes:
        for L in (1, 2, 3):
            for distinct in (False, True):
                cs.append(dict(name=f"levellimit.off{offered}.ex{existing}.L{L}.{'distinct' if distinct else 'ties'}", fn=h_levellimit,
                               params=dict(offered=offered, existing=existing, L=L, distinct=distinct), weight=sum(offered) + existing, **R))
    for L in (1, 2, 3):
        cs.append(dict(name=f"levellimit.three_levels.L{L}", fn=h_levellimit3, params=dict(L=L), weight=8, **R))
    for nc, ns, d in [(1, 1, 1), (2, 2, 1), (2, 1, 2)]:
        cs.append(dict(name=f"skipsame.c{nc}.s{ns}.d{d}", fn=h_skipsame, params=dict(n_cands=nc, n_seeds=ns, d=d), **R))
    cs.append(dict(name="generators.best", fn=h_generators, params=dict(gen="best", n_pop=3), weight=5, **R))
    cs.append(dict(name="generators.nbc", fn=h_generators, params=dict(gen="nbc", n_pop=2), weight=5, **R))
    cs.append(dict(name="generators.nbc-local", fn=h_generators, params=dict(gen="nbc-local", n_pop=2), weight=5, **R))
    for L in (1, 2):
        cs.append(dict(name=f"chain.L{L}", fn=h_chain, params=dict(n=3, L=L), weight=5, **R))
        cs.append(dict(name=f"chain.first_round.L{L}", fn=h_first_round, params=dict(n=3, L=L), weight=3, **R))
    return cs
