"""Tree-step harness family (T): one real DemeTree.run_step from a state built by the real constructors
(DemeTree(config) + real _do_sprout + concrete warm-up metaepochs), with the scheduler's nondeterminism symbolic:

  * every deme's _active / _hibernating flag is an unconstrained symbolic boolean (subject to the stated invariant),
  * the global stop condition returns a fresh symbolic verdict at every consultation (monotone: once true stays true),
  * local stop conditions and CMA-ES' internal stop() return fresh symbolic verdicts,
  * the candidate generator offers seeds for an arbitrary (symbolic) subset of the eligible parents,

while genomes / fitness values stay concrete (the real engines, the real cma and scipy run natively on them), so that
the logging arguments of run_step (max() over histories) do not fork.  One inductive step from an arbitrary flag
state covers histories of any length for the properties that only depend on flags, counters and structure.
"""
import hashlib

import numpy as np

from symx.core import SBool, is_sym, land, lor, lnot, implies, iff, ite, lift_int

KINDS = ("ea", "mwea", "sea-xover", "ga", "sea-adaptive", "de", "shade", "cma", "local", "lhs", "sobol")


class CallLog:
    """Recording objective: every invocation is logged with the deme that was running."""

    def __init__(self, d, kind="smooth"):
        self.d = d
        self.kind = kind
        self.entries = []  # (level, who, x tuple, value)
        self.current = "init"

    def value(self, x):
        x = np.asarray(x, dtype=np.float64)
        if self.kind.startswith("neg-"):
            return -CallLog(self.d, self.kind[4:]).value(x)
        if self.kind == "terrace":
            # plateaus: zero numerical gradient almost everywhere, many exact ties
            return float(np.sum(np.floor(2 * x) ** 2))
        return float(np.sum((x - 0.3) ** 2) + 0.1 * np.sum(np.cos(3 * x)))

    def wrap(self, level):
        def f(x, *a, **k):
            x = np.asarray(x, dtype=np.float64)
            v = self.value(x)
            self.entries.append((level, self.current, tuple(x.tolist()), v))
            return v

        return f

    def count(self, level=None, who=None, since=0):
        return sum(1 for (l, w, _, _) in self.entries[since:] if (level is None or l == level) and (who is None or w == who))


class RecGSC:
    """Global stop condition as an environment: fresh symbolic verdict per consultation, monotone."""

    def __init__(self):
        self.P = None
        self.verdicts = []
        self.hooks = []
        self.where = []
        self.symbolic = False
        self.monotone = True
        self.inner = None  # a real (shipped) condition to pass through, or None for a symbolic verdict
        self.max_consultations = None

    def __call__(self, tree):
        if not self.symbolic:
            return False
        P = self.P
        k = len(self.verdicts)
        if self.max_consultations is not None and k >= self.max_consultations:
            P.cut(f"more than {self.max_consultations} consultations of the global stop condition")
        for h in self.hooks:
            h(tree, k)
        if self.inner is not None:
            b = bool(self.inner(tree))
            self.verdicts.append(b)
            self.where.append(getattr(tree, "_verif_running", None))
            return b
        v = P.bool(f"gsc#{k}")
        if self.monotone and self.verdicts:
            P.assume(implies(self.verdicts[-1], v))
        b = bool(v)  # decide here: every caller truth-tests the verdict anyway
        self.verdicts.append(b)
        self.where.append(getattr(tree, "_verif_running", None))
        return b

    def __str__(self):
        return "RecGSC"

    def first_true(self):
        for i, b in enumerate(self.verdicts):
            if b:
                return i
        return None


class RecLSC:
    def __init__(self):
        self.P = None
        self.symbolic = False
        self.inner = None  # a real (shipped) local stop condition to pass through, or None for a symbolic verdict
        self.shared = None
        self.calls = {}  # deme id -> list of verdicts

    def __call__(self, deme):
        if not self.symbolic:
            return False
        k = len(self.calls.setdefault(deme.id, []))
        if self.inner is not None:
            b = bool(self.inner(deme))
        elif self.shared is not None and (deme.level, deme.id, k) in self.shared:
            b = self.shared[(deme.level, deme.id, k)]  # twin run: replay the verdicts of the first run
        else:
            b = bool(self.P.bool(f"lsc.{deme.id}#{k}"))
            if self.shared is not None:
                self.shared[(deme.level, deme.id, k)] = b
        self.calls[deme.id].append(b)
        return b


class StubGenerator:
    """Candidate generator: for every active non-leaf deme a symbolic choice whether it offers candidates;
    the offered individuals are members of its current population (best first)."""

    def __init__(self, per_deme=2):
        self.P = None
        self.per_deme = per_deme
        self.offered = {}

    def __call__(self, tree):
        from pyhms.sprout.sprout_candidates import DemeCandidates, DemeFeatures

        out = {}
        for level in tree.levels[:-1]:
            for deme in level:
                if deme.is_active:
                    self.rounds = getattr(self, "rounds", {})
                    k = self.rounds.get(deme.id, 0)
                    self.rounds[deme.id] = k + 1
                    if bool(self.P.bool(f"offer.{deme.id}" + (f"#{k}" if k else ""))):
                        pop = sorted(deme.current_population, reverse=True)[: self.per_deme]
                        out[deme] = DemeCandidates(individuals=list(pop), features=DemeFeatures(nbc_mean_distance=1.0))
                        self.offered[deme.id] = list(pop)
        return out


def level_config(kind, problem, lsc, generations, pop=4):
    from pyhms import config as C
    from pyhms.demes.single_pop_eas import sea as _sea
    from pyhms.demes.single_pop_eas.sea import SEA

    variants = {"mwea": _sea.MWEA, "sea-xover": _sea.SEAWithCrossover, "ga": _sea.GAStyleSEA, "sea-adaptive": _sea.SEAWithAdaptiveMutation}
    if kind in variants:
        extra = dict(p_mutation=0.5, p_crossover=0.7)
        if kind == "sea-adaptive":
            extra["mutation_std_step"] = 0.1
        if kind == "mwea":
            extra = dict(election_group_size=3)
        return C.EALevelConfig(ea_class=variants[kind], generations=generations, problem=problem, pop_size=max(pop, 4), mutation_std=0.5, lsc=lsc,
                               sample_std_dev=0.3, k_elites=1, **extra)
    if kind == "ea":
        return C.EALevelConfig(ea_class=SEA, generations=generations, problem=problem, pop_size=pop, mutation_std=0.5, lsc=lsc, sample_std_dev=0.3)
    if kind == "de":
        return C.DELevelConfig(generations=generations, problem=problem, pop_size=max(pop, 4), lsc=lsc, sample_std_dev=0.3)
    if kind == "shade":
        return C.SHADELevelConfig(generations=generations, problem=problem, pop_size=max(pop, 4), lsc=lsc, memory_size=3, sample_std_dev=0.3)
    if kind == "cma":
        return C.CMALevelConfig(generations=generations, problem=problem, sigma0=0.5, lsc=lsc)
    if kind == "local":
        return C.LocalOptimizationConfig(problem=problem, lsc=lsc, maxiter=3)
    if kind == "lhs":
        return C.LHSLevelConfig(problem=problem, lsc=lsc, pop_size=pop)
    if kind == "sobol":
        return C.SobolLevelConfig(problem=problem, lsc=lsc, pop_size=4)
    raise ValueError(kind)


class World:
    pass


def build(P, kinds, shape, L=2, hibernation=False, generations=2, maximize=False, mech="stub", warm=1, seed=1, d=2,
          deme_filters="limit1", pop=4, objective="smooth"):
    """Build a tree with the real constructors.  shape: per non-root level, the list of parent indices (into the level
    above) of the demes to create there, e.g. [[0, 0], [1]] = two children of the root, one grandchild under the second."""
    from pyhms.config import TreeConfig
    from pyhms.core.problem import FunctionProblem
    from pyhms.sprout import sprout_filters as sf
    from pyhms.sprout.sprout_candidates import DemeCandidates, DemeFeatures
    from pyhms.sprout.sprout_mechanisms import SproutMechanism, get_NBC_sprout, get_simple_sprout
    from pyhms.tree import DemeTree

    w = World()
    w.P = P
    w.kinds = list(kinds)
    w.log = CallLog(d, objective)
    w.gsc = RecGSC()
    w.gsc.P = P
    w.lscs = [RecLSC() for _ in kinds]
    for l in w.lscs:
        l.P = P
    bounds = np.array([[-2.0, 2.0], [-1.0, 3.0], [-4.0, 1.0]][:d])  # different range per coordinate
    w.bounds = bounds
    w.problems = [FunctionProblem(w.log.wrap(i), bounds, maximize) for i in range(len(kinds))]
    levels = [level_config(k, w.problems[i], w.lscs[i], generations, pop) for i, k in enumerate(kinds)]
    w.generator = None
    if mech == "stub":
        w.generator = StubGenerator()
        w.generator.P = P
        dfs = [sf.DemeLimit(1)] if deme_filters == "limit1" else []
        mechanism = SproutMechanism(w.generator, dfs, [sf.LevelLimit(L)])
    elif mech == "simple":
        mechanism = get_simple_sprout(0.05, level_limit=L)
    elif mech == "nbc-default":
        mechanism = get_NBC_sprout(level_limit=L)
    else:
        mechanism = get_NBC_sprout(gen_dist_factor=1.0, trunc_factor=1.0, fil_dist_factor=0.1, level_limit=L)
    w.L = L
    options = {"hibernation": hibernation, "random_seed": seed, "log_level": "warning"}
    if hibernation is None:
        options = {"random_seed": seed, "log_level": "warning"}
    w.hibernation = bool(hibernation)
    if hibernation is None:
        # another tree of the same process was configured with hibernation on: that must not leak into a config that omits the key
        TreeConfig(levels, w.gsc, mechanism, options={"hibernation": True, "random_seed": seed})
    config = TreeConfig(levels, w.gsc, mechanism, options=options)
    tree = DemeTree(config)
    w.tree = tree
    instrument(w, tree.root)
    # grow the requested shape with the real _do_sprout, warming up in between so that start metaepochs differ
    for lvl, parents in enumerate(shape, start=1):
        for pidx in parents:
            parent = tree.levels[lvl - 1][pidx]
            k = len(parent.children) % len(parent.current_population)
            seed_ind = sorted(parent.current_population, reverse=True)[k]
            w.log.current = f"sprout:{parent.id}"
            before = len(tree.levels[lvl])
            tree._do_sprout({parent: DemeCandidates([seed_ind], DemeFeatures(nbc_mean_distance=1.0))})
            for child in tree.levels[lvl][before:]:
                instrument(w, child)
        for _ in range(warm):
            tree.metaepoch_count += 1
            for _, deme in reversed(tree.all_demes):
                if deme._active and not (lvl < len(shape) and deme.level == lvl):  # the newest level stays fresh half the time
                    deme.run_metaepoch(tree)
    w.log.current = "idle"
    return w


def instrument(w, deme):
    """Spies (pass-through): which deme is running, engine iterations, parents handed to the engine."""
    deme._verif_runs = []  # one record per engine iteration
    cls = type(deme)

    def run_metaepoch(tree, _deme=deme, _cls=cls):
        prev = w.log.current
        w.log.current = _deme.id
        tree._verif_running = _deme.id
        _deme._verif_stepped = getattr(_deme, "_verif_stepped", 0) + 1
        try:
            return _cls.run_metaepoch(_deme, tree)
        finally:
            w.log.current = prev
            tree._verif_running = None

    deme.run_metaepoch = run_metaepoch
    for attr in ("_ea", "_de", "_shade"):
        eng = getattr(deme, attr, None)
        if eng is not None:
            orig = eng.run

            def run(parents, *a, _orig=orig, _deme=deme, **k):
                rec = {"parents": parents, "consults_before": len(w.gsc.verdicts), "log_before": len(w.log.entries)}
                out = _orig(parents, *a, **k)
                rec["out"] = out
                rec["log_after"] = len(w.log.entries)
                _deme._verif_runs.append(rec)
                return out

            eng.run = run
    es = getattr(deme, "_cma_es", None)
    if es is not None:
        orig_tell, orig_ask, orig_stop = es.tell, es.ask, es.stop

        def tell(genomes, values, *a, _deme=deme, **k):
            _deme._verif_runs.append({"tell": ([np.array(g, copy=True) for g in genomes], list(values)),
                                      "consults_before": len(w.gsc.verdicts), "log_before": len(w.log.entries)})
            return orig_tell(genomes, values, *a, **k)

        def stop(*a, _deme=deme, **k):
            if not w.gsc.symbolic or not getattr(w, "sym_cma_stop", True):
                return orig_stop(*a, **k)
            n = getattr(_deme, "_verif_stops", 0)
            _deme._verif_stops = n + 1
            b = bool(w.P.bool(f"cmastop.{_deme.id}#{n}"))
            _deme._verif_stop_verdicts = getattr(_deme, "_verif_stop_verdicts", []) + [b]
            return b

        es.tell = tell
        es.stop = stop


def digest(deme):
    h = hashlib.sha256()
    for me in deme._history:
        h.update(b"|M")
        for gen in me:
            h.update(b"|G")
            for ind in gen:
                h.update(np.asarray(ind.genome, dtype=np.float64).tobytes())
                h.update(np.float64(ind.fitness).tobytes())
    return h.hexdigest()


def go_symbolic(w, free_flags=True, monotone=True):
    """Replace the flags by unconstrained symbolic booleans (subject to the invariant) and arm the recorders."""
    P, tree = w.P, w.tree
    w.pre = {}
    height = len(tree.levels)
    for lvl, deme in tree.all_demes:
        if free_flags:
            a = P.bool(f"act.{deme.id}")
            if type(deme).__name__ == "LocalDeme" and len(deme._history) > 1:
                a = False  # a local deme that has run is never active (established by its own run_metaepoch)
            deme._active = a
            if w.hibernation and lvl < height - 1:
                deme._hibernating = P.bool(f"hib.{deme.id}")
        w.pre[deme.id] = dict(active=deme._active, hib=deme._hibernating, hist=len(deme._history), evals=deme.n_evaluations,
                              digest=digest(deme), children=[c.id for c in deme.children], level=lvl, obj=deme,
                              histobjs=[id(m) for m in deme._history], stepped=getattr(deme, "_verif_stepped", 0),
                              runs=len(deme._verif_runs), pop=list(deme.current_population))
    # invariant assumed on the pre-state (and re-established as an obligation on the post-state): level limit
    for lvl in range(1, height):
        P.assume(count_true([d._active for d in tree.levels[lvl]]) <= w.L, None)
    w.pre_levels = [list(l) for l in tree.levels]
    w.pre_count = tree.metaepoch_count
    w.pre_log = len(w.log.entries)
    w.gsc.symbolic = True
    w.gsc.monotone = monotone
    for l in w.lscs:
        l.symbolic = True


def count_true(bs):
    acc = 0
    for b in bs:
        if isinstance(b, SBool):
            acc = lift_int(b) + acc
        else:
            acc = acc + (1 if b else 0)
    return acc


def val(b):
    """Concrete value of a flag on this path (flags are decided by the code that reads them; deciding here only
    splits the path further, never changes it)."""
    return bool(b)
