"""C09 - centroids are current; sprouts keep their distance.

(a) deme.centroid == mean(current population) for every real deme class, checked after real metaepochs (tree-step / bounded-run
    harnesses, concrete numbers, symbolic schedule).
(b) real FarEnough / NBC_FarEnough on symbolic candidates and sibling populations (profile 'real'): a candidate is kept iff it is
    strictly farther than the threshold from the *current* mean of every sibling the filter is configured to consider.
"""
import numpy as np

from symx.core import land, lor, implies, lnot, ite, iff, is_sym
from ._fake import mk_deme, mk_tree
from ._pop import mk_problem, mk_inds
from .trun import run_cases
from .tstep import tree_cases

PROPERTY = "C09"


def _norm(vec, ord):
    from symx import arr
    vs = list(vec)
    if ord == 1:
        s = abs(vs[0])
        for v in vs[1:]:
            s = s + abs(v)
        return s
    if ord == "inf":
        s = abs(vs[0])
        for v in vs[1:]:
            s = arr._maximum(s, abs(v))
        return s
    if len(vs) == 1:
        return abs(vs[0])
    s = vs[0] * vs[0]
    for v in vs[1:]:
        s = s + v * v
    return arr._sqrt(s)


def h_far(P, which, ord, n_cands=2, n_sibs=2, d=1, pop=2, only_active=False):
    from pyhms.sprout import sprout_filters as sf
    from pyhms.sprout.sprout_candidates import DemeCandidates, DemeFeatures

    prob, F, maximize, bounds = mk_problem(P, d, maximize=False)
    cands = mk_inds(P, prob, n_cands, d, "c")
    parent = mk_deme("root", 0)
    sibs = []
    for j in range(n_sibs):
        members = mk_inds(P, prob, pop, d, f"s{j}_")
        older = mk_inds(P, prob, pop, d, f"o{j}_")  # an earlier generation: the centroid must not be taken from it
        s = mk_deme(str(j), 1, active=P.bool(f"act{j}"), population=older)
        s._history.append([list(members)])
        sibs.append(s)
    # the demes on the target level belong to different parents: the filter must look at the whole level
    other = mk_deme("p1", 0)
    parent._children = list(sibs[:1])
    other._children = list(sibs[1:])
    tree = mk_tree([[parent, other], sibs])
    nord = {"1": 1, "2": 2, "inf": np.inf}[str(ord)]
    if which == "far":
        thr = P.float("min_distance", finite=True, lo=0.0)
        flt = sf.FarEnough(thr, nord)
        feats = DemeFeatures()
        threshold = thr
    else:
        factor = 2.0
        md = P.float("nbc_mean_distance", finite=True, lo=0.0)
        flt = sf.NBC_FarEnough(factor, nord, check_only_active=only_active)
        feats = DemeFeatures(nbc_mean_distance=md)
        threshold = factor * md
    out = flt({parent: DemeCandidates(list(cands), feats)}, tree)
    kept = out[parent].individuals
    P.oblige("far.subset", all(any(k is c for c in cands) for k in kept))
    okey = "inf" if str(ord) == "inf" else int(ord)
    for c in cands:
        conds = []
        for s in sibs:
            considered = s._active if (which == "far" or only_active) else True
            mean = [sum_list([m.genome[t] for m in s.current_population]) / float(pop) for t in range(d)]
            dist = _norm([c.genome[t] - mean[t] for t in range(d)], okey)
            conds.append(implies(considered, dist > threshold))
        far_from_all = land(*conds)
        is_kept = any(c is k for k in kept)
        P.oblige(f"{which}.kept_iff_far_from_every_considered_centroid", iff(far_from_all, is_kept) if is_sym(far_from_all) else (bool(far_from_all) == is_kept))


def sum_list(xs):
    s = xs[0]
    for x in xs[1:]:
        s = s + x
    return s


BOUNDS = {"quick": {"filters": "<=2 candidates, <=2 siblings with 2-member populations, d in {1,2}, norms 1/2/inf", "centroids": "tree-step and bounded-run cases (see C06)"},
          "thorough": {"filters": "d=2 with the Euclidean norm (NRA), 3 siblings"}}
OUTSIDE = ["MahalanobisFarEnough", "rounding of the mean / norm (profile 'real')"]
ASSUMPTIONS = ["profile 'real' for the filter harnesses: genomes, means, distances are mathematical reals"]


def cases(tier):
    cs = []
    R = dict(profile="real", budget_s=1500, oblig_timeout_s=120)
    for which in ("far", "nbc"):
        for ord in ("1", "2", "inf"):
            cs.append(dict(name=f"{which}.ord{ord}.d1", fn=h_far, params=dict(which=which, ord=ord, d=1), **R))
        cs.append(dict(name=f"{which}.ord1.d2", fn=h_far, params=dict(which=which, ord="1", d=2, n_cands=1), weight=4, **R))
        cs.append(dict(name=f"{which}.ordinf.d2", fn=h_far, params=dict(which=which, ord="inf", d=2, n_cands=1), weight=4, **R))
    cs.append(dict(name="nbc.only_active.ord2.d1", fn=h_far, params=dict(which="nbc", ord="2", d=1, only_active=True), **R))
    if tier == "thorough":
        for which in ("far", "nbc"):
            cs.append(dict(name=f"{which}.ord2.d2", fn=h_far, params=dict(which=which, ord="2", d=2, n_cands=1, n_sibs=1), weight=30, soft=["*"], optional=True, **R))
    cs += tree_cases(PROPERTY, tier, hibernation_values=(False,)) + run_cases(PROPERTY, tier, hib_values=(False,))
    # the threshold feature handed to NBC_FarEnough: each parent's own mean nearest-better distance (shared with C10 / C15)
    from . import c10, c15
    cs += [c for c in c10.cases(tier) if c["name"] == "generators.nbc"] + [c for c in c15.cases(tier) if c["name"].startswith("generator.mean")]
    return cs
