"""C04 - the reported best is the true best of everything kept and never worsens.
Budget-prefix clause: minimize() with two symbolic budgets N1 < N2 (same seed): the smaller run's evaluations are a prefix of the larger
run's and the result never gets worse.  Part 1 (this file, bounded runs from DemeTree(config)): tree / deme best vs. a brute-force scan of all histories after every
metaepoch, never-worsening, best == best value ever evaluated (engines other than the local optimiser)."""
from .trun import run_cases, h_run
from .tstep import TREE_BOUNDS as BOUNDS, TREE_OUTSIDE as OUTSIDE, TREE_ASSUMPTIONS as ASSUMPTIONS

PROPERTY = "C04"


def cases(tier):
    cs = run_cases(PROPERTY, tier, hib_values=(False,))
    for c in list(cs):
        c2 = dict(c)
        c2["params"] = dict(c["params"], maximize=True)
        c2["name"] = c["name"] + ".maximize"
        cs.append(c2)
    return cs


def h_order(P, n=3, wrappers=1):
    """Ordering laws of Individual (functools.total_ordering over FunctionProblem.worse_than through wrappers) on symbolic float64
    fitness including +-inf and signed zeros, symbolic direction."""
    from symx.core import land, lor, lnot, implies, iff, ite, is_sym
    from ._pop import mk_problem, mk_inds, strictly_better, not_worse

    prob, F, maximize, bounds = mk_problem(P, 1, wrappers=wrappers)
    xs = mk_inds(P, prob, n, 1, "x")
    for a in xs:
        P.oblige("order.irreflexive", not bool(a < a) and bool(a == a) and bool(a <= a) and bool(a >= a))
    for a in xs:
        for b in xs:
            if a is b:
                continue
            lt, gt, eq = bool(a < b), bool(a > b), bool(a == b)
            P.oblige("order.trichotomy", (lt + gt + eq) == 1)
            P.oblige("order.lt_means_strictly_worse", lt == bool(strictly_better(b.fitness, a.fitness, maximize)))
            P.oblige("order.le_ge_consistent", bool(a <= b) == (lt or eq) and bool(a >= b) == (gt or eq) and bool(a != b) == (not eq))
    if n >= 3:
        a, b, c = xs[:3]
        P.oblige("order.transitive", (not (bool(a < b) and bool(b < c))) or bool(a < c))
    best = max(xs)
    for a in xs:
        P.oblige("order.max_is_not_worse_than_any", bool(not_worse(best.fitness, a.fitness, maximize)))
    srt = sorted(xs, reverse=True)
    for i in range(n - 1):
        P.oblige("order.sorted_best_first", bool(not_worse(srt[i].fitness, srt[i + 1].fitness, maximize)))
    P.oblige("order.none_is_smallest", not bool(xs[0] < None) and not bool(xs[0] == None))  # noqa: E711


_runs = cases


def cases(tier):  # noqa: F811
    from .c12 import h_select, h_de

    from .tstep import tree_cases
    cs = _runs(tier) + tree_cases(PROPERTY, tier, hibernation_values=(False,))
    for c in tree_cases(PROPERTY, tier, hibernation_values=(False,))[:6]:
        c2 = dict(c)
        c2["params"] = dict(c["params"], maximize=True)
        c2["name"] = c["name"] + ".maximize"
        cs.append(c2)
    cs.append(dict(name="order.n3.w1", fn=h_order, params=dict(n=3, wrappers=1), profile="fp", budget_s=900, weight=10))
    cs.append(dict(name="order.n2.w3", fn=h_order, params=dict(n=2, wrappers=3), profile="fp", budget_s=900))
    cs.append(dict(name="selection_keeps_best.fp.n2.k1", fn=h_select, params=dict(n=2, k_elites=1), profile="fp", budget_s=900))
    cs.append(dict(name="selection_keeps_best.real.n3.k1", fn=h_select, params=dict(n=3, k_elites=1), profile="real", budget_s=1500, weight=10))
    from .c02 import h_engine
    for e in ("sea", "sea-xover", "ga", "sea-adaptive"):
        cs.append(dict(name=f"engine_keeps_best.{e}.n2", fn=h_engine, params=dict(engine=e, n=2), profile="fp", budget_s=1800, oblig_timeout_s=120,
                       abstract_mul=True, weight=10))
    cs.append(dict(name="engine_keeps_best.de.n4", fn=h_engine, params=dict(engine="de", n=4), profile="fp", budget_s=1800, oblig_timeout_s=120,
                   abstract_mul=True, weight=30))
    from .c03 import h_prefix
    cs.append(dict(name="budget_prefix.sym.seed0", fn=h_prefix, params=dict(nmax=16, seed=0), profile="fp", budget_s=1200, max_paths=100000, weight=10))
    cs.append(dict(name="budget_prefix.sym", fn=h_prefix, params=dict(nmax=40 if tier == "quick" else 100), profile="fp", budget_s=2400, max_paths=100000,
                   weight=40))
    if tier == "thorough":
        cs.append(dict(name="order.n4.w0", fn=h_order, params=dict(n=4, wrappers=0), profile="fp", budget_s=3000, weight=40))
        cs.append(dict(name="de_keeps_best.n4", fn=h_de, params=dict(n=4), profile="fp", budget_s=3000, weight=30))
    return cs
