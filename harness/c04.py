"""C04 - the reported best is the true best of everything kept and never worsens.
Part 1 (this file, bounded runs from DemeTree(config)): tree / deme best vs. a brute-force scan of all histories after every
metaepoch, never-worsening, best == best value ever evaluated (engines other than the local optimiser)."""
from .trun import run_cases, h_run
from .tstep import TREE_BOUNDS as BOUNDS, TREE_OUTSIDE as OUTSIDE, TREE_ASSUMPTIONS as ASSUMPTIONS

PROPERTY = "C04"


def cases(tier):
    cs = run_cases(PROPERTY, tier, hib_values=(False,))
    for c in list(cs):
        c2 = dict(c)
        c2["params"] = dict(c["params"], maximize=True)
        c2["name"] = c["name"] + ".maximize"
        cs.append(c2)
    return cs
