"""C12 - elitist engines never lose ground; population size is constant.

Real code executed: BaseSEA.select_new_population / Population.topk / merge, SEA.run pipelines, DE.run, SHADE.run.
"""
import numpy as np

from symx.core import land, lor, implies, lnot, ite, same_bits, iff, is_sym
from ._pop import mk_problem, mk_inds, not_worse, member, in_box, stub_apply_bounds

PROPERTY = "C12"


def h_select(P, n, k_elites, d=1):
    """(mu + k) truncation on arbitrary evaluated parent / offspring populations (ties and +-inf included)."""
    from pyhms.core.population import Population
    from pyhms.demes.single_pop_eas.sea import SEA

    prob, F, maximize, bounds = mk_problem(P, d)
    parents = mk_inds(P, prob, n, d, "p")
    offspring = mk_inds(P, prob, n, d, "o")
    sea = SEA(variational_operators_pipeline=[], k_elites=k_elites)
    out = sea.select_new_population(Population.from_individuals(parents), Population.from_individuals(offspring)).to_individuals()
    P.oblige("size.constant", len(out) == n)
    for i, p in enumerate(parents):
        P.oblige("elitist.best_not_worse", lor(*[not_worse(o.fitness, p.fitness, maximize) for o in out]))
    for i, q in enumerate(offspring):
        P.oblige("nothing_lost.offspring", lor(*[not_worse(o.fitness, q.fitness, maximize) for o in out]))
    for o in out:
        P.oblige("select.subset", member(o, parents + offspring))
    for j, o in enumerate(out):
        P.observe(f"out{j}.f", o.fitness)


def h_de(P, n, d=1, dither=False, shade=False, maximize="sym"):
    """One generation of DE / SHADE: one-to-one replacement => slot-wise no worsening, hence k-th best never worsens."""
    from pyhms.demes.single_pop_eas.de import DE, SHADE

    prob, F, maximize, bounds = mk_problem(P, d, maximize=maximize)
    stub_apply_bounds(P)
    parents = mk_inds(P, prob, n, d, "p", fitness="F", F=F, bounds=bounds)
    base = F.n_calls()
    if shade:
        eng = SHADE(memory_size=2, population_size=n)
        _stub_shade(P, eng, n, bounds)
    else:
        eng = DE(use_dither=dither, crossover_probability=0.9, f=0.8)
    out = eng.run(parents)
    P.oblige("size.constant", len(out) == n)
    # one-to-one: the multiset of slots is permuted by the merge order (accepted trials first, then kept parents);
    # k-th best never worsens <=> there is a bijection out->parents with out not worse.  The real merge order gives it:
    # every parent p_i is either kept (present in out) or replaced by its own trial t_i with t_i not worse than p_i.
    for i, p in enumerate(parents):
        P.oblige("one_to_one.parent_dominated", lor(*[not_worse(o.fitness, p.fitness, maximize) for o in out]))
    P.oblige("one_to_one.kth_best", _kth_best_not_worse(P, [o.fitness for o in out], [p.fitness for p in parents], maximize))
    for j, o in enumerate(out):
        P.observe(f"out{j}.f", o.fitness)


def _stub_shade(P, eng, n, bounds):
    """SHADE's replacement / archive logic is the subject; its parameter sampling, the current-to-pbest donor construction and the
    memory adaptation are replaced by contracts (arbitrary in-range parameters, arbitrary in-box donors with invalidated fitness)."""
    import numpy as np
    from pyhms.core.population import Population
    from symx.core import land

    P.note_stub("SHADE._get_params: arbitrary cr in [0,1], f in (0,1], p = 0.5; SHADE._mutation: arbitrary in-box donors (fitness NaN where the "
                "genome changed); SHADE._update_memory: no-op (parameter adaptation not modelled)")

    def get_params():
        cr = P.floats(P._n("cr"), (n,), finite=True)
        f = P.floats(P._n("f"), (n,), finite=True)
        for i in range(n):
            P.assume(land(cr[i] >= 0.0, cr[i] <= 1.0, f[i] > 0.0, f[i] <= 1.0))
        return cr, f, np.full(n, 0.5)

    def mutation(population, archive, f, p):
        new = P.floats(P._n("donor"), np.shape(population.genomes), finite=True)
        for idx in np.ndindex(*np.shape(new)):
            P.assume(land(new[idx] >= bounds[idx[-1]][0], new[idx] <= bounds[idx[-1]][1]))
        fit = P.np.where(P.np.all(new == population.genomes, axis=1), population.fitnesses, np.nan)
        return Population(new, fit, population.problem)

    eng._get_params = get_params
    eng._mutation = mutation
    eng._update_memory = lambda *a, **k: None


def _kth_best_not_worse(P, out_f, par_f, maximize):
    """for every k: k-th best of out is not worse than k-th best of parents.
    Equivalent (Hall): for every threshold t among the parents' values, #{out not worse than t} >= #{parents not worse than t}."""
    conds = []
    n = len(par_f)
    for t in par_f:
        cnt_out = sum_bools([not_worse(o, t, maximize) for o in out_f])
        cnt_par = sum_bools([not_worse(p, t, maximize) for p in par_f])
        conds.append(cnt_out >= cnt_par)
    return land(*conds)


def sum_bools(bs):
    from symx.core import lift_int, SBool

    acc = 0
    for b in bs:
        if isinstance(b, SBool):
            acc = lift_int(b) + acc
        else:
            acc = acc + (1 if b else 0)
    return acc


BOUNDS = {"quick": {"select": "n in {2,3}, k_elites in {1,2}, d=1, fitness free non-NaN incl. ties/+-inf, symbolic direction",
                    "DE": "n=4, d=1, one generation, box (-1,1), draws symbolic"},
          "thorough": {"select": "n<=4", "DE": "n=4, d in {1,2}; SHADE n=4 d=1"}}
OUTSIDE = ["populations larger than 4", "SHADE memory dynamics beyond one generation (parameters are draws)"]
ASSUMPTIONS = []


def cases(tier):
    cs = []
    # bit-precise float64 (incl. +-inf, signed zeros) at n=2; order-only reasoning over the reals for larger n
    for k in (1, 2):
        cs.append(dict(name=f"select.fp.n2.k{k}", fn=h_select, params=dict(n=2, k_elites=k), profile="fp", budget_s=1500, weight=4))
    for n in ((3,) if tier == "quick" else (3, 4)):
        for k in (1, 2):
            cs.append(dict(name=f"select.real.n{n}.k{k}", fn=h_select, params=dict(n=n, k_elites=k), profile="real", budget_s=3000,
                           weight=n * n, argsort_mode="fork-ties" if (n == 3 and k == 1) else "fork"))
    # one case per optimisation direction (the direction is the first fork anyway; two cases run in parallel)
    for mx in (True, False):
        tag = "max" if mx else "min"
        cs.append(dict(name=f"de.n4.{tag}", fn=h_de, params=dict(n=4, maximize=mx), profile="fp", budget_s=1500, weight=20))
        cs.append(dict(name=f"de.dither.n4.{tag}", fn=h_de, params=dict(n=4, dither=True, maximize=mx), profile="fp", budget_s=1500, weight=20))
        cs.append(dict(name=f"shade.n4.{tag}", fn=h_de, params=dict(n=4, shade=True, maximize=mx), profile="fp", budget_s=1500, weight=20, portfolio=True,
                       separate=True, oblig_timeout_s=120, cores=2))
    # the real engines (SEA, DE, SHADE, CMA-ES) along real histories, both directions, plateau objective (ties) included
    from .trun import run_cases
    from .tstep import tree_cases
    tc = [c for c in tree_cases(PROPERTY, tier, hibernation_values=(False,)) if any(k in c["name"] for k in ("shade", "de", "ea-cma", "terrace", ".g3"))]
    rc = run_cases(PROPERTY, tier, hib_values=(False,))
    for c in tc + rc:
        cs.append(c)
        c2 = dict(c)
        c2["params"] = dict(c["params"], maximize=True)
        c2["name"] = c["name"] + ".maximize"
        cs.append(c2)
    from .selftest import cases as _selftest_cases
    cs += _selftest_cases(tier)  # shim validation on constants (adversarial table), DESIGN 5.3
    return cs
