"""C03 - evaluation counts exact; budgets hard."""
from .trun import run_cases
from .tstep import tree_cases, TREE_BOUNDS as BOUNDS, TREE_OUTSIDE as OUTSIDE, TREE_ASSUMPTIONS as ASSUMPTIONS

PROPERTY = "C03"


def cases(tier):
    return tree_cases(PROPERTY, tier, hibernation_values=(False,)) + run_cases(PROPERTY, tier)
