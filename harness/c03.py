"""C03 - evaluation counts exact; budgets hard."""
from .trun import run_cases
from .tstep import tree_cases, TREE_BOUNDS as BOUNDS, TREE_OUTSIDE as OUTSIDE, TREE_ASSUMPTIONS as ASSUMPTIONS

PROPERTY = "C03"


def cases(tier):
    return tree_cases(PROPERTY, tier, hibernation_values=(False,)) + run_cases(PROPERTY, tier)


def h_minimize(P, nmax=60, maxiter=None, seed=1):
    """The real pyhms.minimize with a *symbolic* budget N: every comparison against the budget forks, so the explorer visits
    every distinct behaviour of the run as a function of N (1..nmax) and the obligations are decided per class of N."""
    import numpy as np
    from pyhms.hms import minimize

    calls = []

    def fun(x):
        x = np.asarray(x, dtype=np.float64)
        v = float(np.sum((x - 0.25) ** 2))
        calls.append((tuple(x.tolist()), v))
        return v

    bounds = np.array([[-2.0, 1.0], [-1.0, 3.0]])
    if maxiter is None:
        N = P.int("maxfun", 1, nmax)
        res = minimize(fun, bounds, maxfun=N, seed=seed)
        P.oblige("C03.minimize_budget_is_hard", len(calls) <= N)
    else:
        res = minimize(fun, bounds, maxiter=maxiter, seed=seed)
        P.oblige("C05.minimize_nit_equals_maxiter", res.nit == maxiter)
    P.oblige("C03.minimize_nfev_equals_calls", res.nfev == len(calls))
    P.oblige("C04.minimize_fun_is_minimum_of_all_calls", res.fun == min(v for _, v in calls))
    P.oblige("C02.minimize_fun_is_value_at_x", any(tuple(np.asarray(res.x).tolist()) == x and res.fun == v for x, v in calls))
    P.oblige("C01.minimize_x_in_bounds", bool(np.all(res.x >= bounds[:, 0]) and np.all(res.x <= bounds[:, 1])))
    P.oblige("C01.minimize_all_calls_in_bounds", all(bounds[j, 0] <= x[j] <= bounds[j, 1] for x, _ in calls for j in range(2)))


h_minimize.env_opts = {"rng": "real"}
_tree_only = cases


def cases(tier):  # noqa: F811
    cs = _tree_only(tier)
    nmax = 60 if tier == "quick" else 200
    for seed in ((1,) if tier == "quick" else (1, 2, 3)):
        cs.append(dict(name=f"minimize.maxfun.sym.seed{seed}", fn=h_minimize, params=dict(nmax=nmax, seed=seed), profile="fp", budget_s=1500, weight=50))
    cs.append(dict(name="minimize.maxiter2", fn=h_minimize, params=dict(maxiter=2), profile="fp", budget_s=600))
    # the counting / cutoff wrappers themselves (shared with C16): every forwarded call is counted whatever it returns (incl. +-inf),
    # a cutoff(N) never forwards more than N calls
    from .c16 import h_stack
    for s in (["count"], ["cutoff"], ["count", "cutoff"], ["cutoff", "count"], ["count", "count"]):
        cs.append(dict(name="wrappers.fp." + "/".join(s), fn=h_stack, params=dict(kinds=list(s), m=4), profile="fp", oblig_timeout_s=120, budget_s=900))
    return cs


def h_prefix(P, nmax=30, seed=1):
    """C04 budget-prefix clause: for a fixed seed, minimize(maxfun=N2) replays the evaluations of minimize(maxfun=N1) as a prefix for
    every N1 < N2 <= nmax (both budgets symbolic), and never returns a worse result."""
    import numpy as np
    from pyhms.hms import minimize

    bounds = np.array([[-2.0, 1.0], [-1.0, 3.0]])
    n1 = P.int("n1", 1, nmax - 1)
    n2 = P.int("n2", 2, nmax)
    P.assume(n1 < n2)
    logs = []
    results = []
    for N in (n1, n2):
        calls = []

        def fun(x, calls=calls):
            x = np.asarray(x, dtype=np.float64)
            calls.append(tuple(x.tolist()))
            return float(np.sum((x - 0.25) ** 2))

        results.append(minimize(fun, bounds, maxfun=N, seed=seed))
        logs.append(calls)
    P.oblige("C04.larger_budget_replays_smaller_as_prefix", logs[1][: len(logs[0])] == logs[0])
    P.oblige("C04.larger_budget_never_worse", results[1].fun <= results[0].fun)


h_prefix.env_opts = {"rng": "real"}
