"""C05 - decided on one real DemeTree.run_step from a symbolic-flag state (see tstep.py / _tree.py)."""
from .trun import run_cases, run_loop_cases
from .tstep import condition_cases, tree_cases, TREE_BOUNDS as BOUNDS, TREE_OUTSIDE as OUTSIDE, TREE_ASSUMPTIONS as ASSUMPTIONS

PROPERTY = "C05"


def cases(tier):
    return tree_cases(PROPERTY, tier, hibernation_values=(False, True)) + run_cases(PROPERTY, tier) + run_loop_cases(tier) + condition_cases(tier)
