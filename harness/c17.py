"""C17 - bound repair lands in the box, leaves in-box points alone, moves as prescribed.

Real code executed: pyhms.demes.single_pop_eas.common.apply_bounds on a 1x1 (and 2x2) symbolic float64 array.
"""
import math
from fractions import Fraction

import numpy as np

from symx.core import land, lor, implies, lnot, ite, same_bits

PROPERTY = "C17"
SPEC128 = False

CATALOGUE = [(-20.0, 20.0), (-10.0, 10.0), (0.0, 1.0), (-0.1, 0.2), (1e-3, 1e3), (-1e300, 1e300), (5e-324 * 2**60, 1.0),
             (-3.0, 4.0), (0.1, 0.7), (-0.7, 0.9), (100.0, 100.5)]


def _mk_box(P, box):
    if box is None:
        lo = P.float("lo", finite=True)
        hi = P.float("hi", finite=True)
        P.assume(lo < hi, "box lower < upper, both finite")
        # subnormal ranges are excluded (stated bound)
        P.assume((hi - lo) >= 2.2250738585072014e-308, "range is a normal float64 (subnormal ranges excluded)")
        return lo, hi
    return float(box[0]), float(box[1])


def h_repair(P, method, box, K=3, region=None, near=None, J=4):
    """region=None: in-box and fix-point obligations for every g within 2^K ranges of the box.
    region=k: prescribed-movement (congruence) obligation for g in the k-th translate of the box."""
    from pyhms.demes.single_pop_eas.common import apply_bounds

    lo, hi = _mk_box(P, box)
    if near is not None:
        # inputs within 16 ulps of the near-th multiple of the range counted from the lower face (faces, one ulp outside,
        # exact multiples of the range).  g = b advanced by j ulps, j a symbolic integer in [-16, 16]
        rng = Fraction(hi) - Fraction(lo)
        b = float(Fraction(lo) + near * rng)
        j = P.int("j", -J, J)
        if method == "reflect" and not P.concrete:
            # the FP division inside floor_divide makes even a 2J+1-point query take minutes; fork over the offsets
            # instead (one path per input point, obligations folded to constants by the simplifier over the same encoding)
            import operator
            j = operator.index(j)
        g = _ulp_offset(P, b, j)
    else:
        g = P.float("g", finite=True)
    if region is not None:
        rng = Fraction(hi) - Fraction(lo)
        a, b = float(Fraction(lo) + region * rng), float(Fraction(lo) + (region + 1) * rng)
        P.assume(land(g >= a, g < b), None)
    bounds = P.mk_array([lo, hi], (1, 2), float)
    genomes = P.mk_array([g], (1, 1), float)
    out = apply_bounds(genomes, bounds, method)
    P.oblige("shape", tuple(np.shape(out)) == (1, 1))
    r = out[0, 0]
    P.observe("r", r)
    inside = land(lo <= g, g <= hi)
    if near is not None:
        P.oblige(f"{method}.inbox", land(lo <= r, r <= hi))
        P.oblige(f"{method}.fixpoint", implies(inside, r == g))
        if method != "clip":
            P.oblige(f"{method}.congruent", _congruent(P, method, lo, hi, g, r, K, (near - 2, near - 1, near, near + 1)))
    elif region is None:
        P.oblige(f"{method}.inbox", land(lo <= r, r <= hi))
        if box is not None:
            tol = 4 * math.ulp(max(abs(lo), abs(hi)))
        else:
            m = ite(abs(lo) >= abs(hi), abs(lo), abs(hi))
            tol = (4 * 2.0**-52) * m
        d = r - g
        P.oblige(f"{method}.fixpoint", implies(inside, land(d <= tol, d >= -tol)))
        if method == "clip":
            P.oblige("clip.nearest_face", land(implies(g < lo, r == lo), implies(g > hi, r == hi), implies(inside, r == g)))
    else:
        P.oblige(f"{method}.congruent", _congruent(P, method, lo, hi, g, r, K, (region - 1, region, region + 1)))


def _ulp_offset(P, b, j):
    """the float64 j ulps above (j>0) / below (j<0) b, as a term over the symbolic integer j (IEEE bit arithmetic)."""
    import struct

    if b == 0.0:
        b = 5e-324 * 32  # stay on one side of zero: the 33 values 16..48 denormal steps above zero
    bits = struct.unpack("<Q", struct.pack("<d", b))[0]
    if P.concrete:
        nb = bits + j if b > 0 else bits - j
        return struct.unpack("<d", struct.pack("<Q", nb))[0]
    import z3
    from symx.core import SFloat, is_sym

    if not is_sym(j):
        nb = bits + j if b > 0 else bits - j
        return struct.unpack("<d", struct.pack("<Q", nb))[0]
    off = z3.SignExt(32, j.e)
    e = z3.BitVecVal(bits, 64) + off if b > 0 else z3.BitVecVal(bits, 64) - off
    return SFloat(None, True, z3.simplify(e))


def _congruent(P, method, lo, hi, g, r, K, ks):
    """r == g - k*range (toroidal) / r == +-g mod 2*range about the faces (reflect), |error| <= 2^(K+2) ulp(scale).
    Spec side in binary128 so that its own rounding is negligible; k ranges over the finite set allowed by K."""
    rng = Fraction(hi) - Fraction(lo)
    scale = max(abs(lo), abs(hi), float(rng))
    tol = Fraction(2 ** (K + 2)) * Fraction(math.ulp(scale))
    if P.concrete:
        G, R = Fraction(g), Fraction(r)
        if method == "toroidal":
            return any(abs(R - (G - k * rng)) <= tol for k in ks)
        ev = [k for k in range(min(ks) - 1, max(ks) + 2) if k % 2 == 0]
        return any(abs(R - (G - k * rng)) <= tol or abs(R - (2 * Fraction(lo) + k * rng - G)) <= tol for k in ev)
    import z3
    from symx.core import SBool, RNE, lift_float, is_sym

    if not is_sym(g) and not is_sym(r):
        G, R = Fraction(float(g)), Fraction(float(r))
        if method == "toroidal":
            return any(abs(R - (G - k * rng)) <= tol for k in ks)
        ev = [k for k in range(min(ks) - 1, max(ks) + 2) if k % 2 == 0]
        return any(abs(R - (G - k * rng)) <= tol or abs(R - (2 * Fraction(lo) + k * rng - G)) <= tol for k in ev)
    g, r = lift_float(g), lift_float(r)
    T = z3.FPSort(15, 113) if SPEC128 else z3.Float64()

    def c128(fr):
        return z3.simplify(z3.fpRealToFP(RNE, z3.RealVal(f"{fr.numerator}/{fr.denominator}"), T))

    G = z3.fpFPToFP(RNE, g.e, T) if SPEC128 else g.e
    R = z3.fpFPToFP(RNE, r.e, T) if SPEC128 else r.e
    tolc = c128(tol)
    ds = []
    if method != "toroidal":
        # reflect: r = g - 2m*range (even translation) or r = 2*(lower + m*range) - g (mirror about a face): even multiples only
        ks = [k for k in range(min(ks) - 1, max(ks) + 2) if k % 2 == 0]
    for k in ks:
        if method == "toroidal":
            cands = [z3.fpSub(RNE, G, c128(k * rng))]
        else:
            cands = [z3.fpSub(RNE, G, c128(k * rng)), z3.fpSub(RNE, c128(2 * Fraction(lo) + k * rng), G)]
        for cnd in cands:
            ds.append(z3.fpLEQ(z3.fpAbs(z3.fpSub(RNE, R, cnd)), tolc))
    from symx.core import mk_bool

    return mk_bool(z3.Or(*ds))


def h_crosstalk(P, method, box):
    """2x2 array: each coordinate is repaired with its own column's bounds and independently of the others."""
    from pyhms.demes.single_pop_eas.common import apply_bounds

    (lo0, hi0), (lo1, hi1) = box
    g = P.floats("g", (2, 2), finite=True)
    bounds = P.mk_array([lo0, hi0, lo1, hi1], (2, 2), float)
    out = apply_bounds(g, bounds, method)
    P.oblige("shape", tuple(np.shape(out)) == (2, 2))
    for i in range(2):
        for j, (lo, hi) in enumerate(box):
            single = apply_bounds(P.mk_array([g[i, j]], (1, 1), float), P.mk_array([lo, hi], (1, 2), float), method)[0, 0]
            P.oblige(f"{method}.elementwise", same_bits(out[i, j], single))
            P.observe(f"out{i}{j}", out[i, j])


BOUNDS = {
    "quick": {"boxes": "catalogue of 7 concrete float64 boxes, g fully symbolic float64", "K_inbox_fixpoint": 3, "K_congruent": "boundary inputs only: within 4 ulps of every multiple of the range, |m| < 8, three boxes",
              "array_shapes": "1x1 (+2x2 cross-talk check)"},
    "thorough": {"boxes": "catalogue of 11 boxes + fully symbolic (lo,hi) for in-box/fix-point", "K_inbox_fixpoint": "3 (6 on three boxes)",
                 "K_congruent": 2},
}
OUTSIDE = ["non-finite inputs", "lower >= upper", "inputs farther than 2^K ranges from the box", "subnormal ranges (symbolic-box rung)",
           "congruence (prescribed movement) for symbolic boxes"]
ASSUMPTIONS = ["float64 arithmetic of numpy's elementwise ufuncs is IEEE-754 round-to-nearest-even (validated per path by replay)",
               "np.remainder/np.floor_divide follow npy_divmod of numpy 1.26 (encoding validated by replay on every path model)"]


def cases(tier):
    cs = []
    boxes = CATALOGUE[:7] if tier == "quick" else CATALOGUE
    K = 3
    T = 300 if tier == "quick" else 900
    Tc = 60 if tier == "quick" else 240
    for method in ("clip", "toroidal", "reflect"):
        for box in boxes:
            cs.append(dict(name=f"repair.{method}.box{tuple(box)}", fn=h_repair, params=dict(method=method, box=list(box), K=K),
                           profile="fp", portfolio=(method != "clip"), fmod_K=K, oblig_timeout_s=T, separate=True, cores=3 if method != "clip" else 1,
                           weight=5 if method == "reflect" else 2))
        cs.append(dict(name=f"crosstalk.{method}", fn=h_crosstalk, params=dict(method=method, box=[[-0.1, 0.2], [0.0, 1.0]]),
                       profile="fp", portfolio=False, fmod_K=K, oblig_timeout_s=120))
    cs.append(dict(name="repair.clip.symbolic-box", fn=h_repair, params=dict(method="clip", box=None, K=K), profile="fp"))
    # prescribed movement: one case per translate of the box
    Kc = 1 if tier == "quick" else 2
    # (quick: prescribed movement is decided on the boundary-input cases below; the per-translate queries over *all* inputs of
    #  a translate need minutes each and run in the thorough tier only)
    cboxes = [] if tier == "quick" else [(-20.0, 20.0), (0.0, 1.0), (-0.1, 0.2), (0.1, 0.7)]
    for method in ("toroidal", "reflect"):
        for box in cboxes:
            for region in range(-(2**Kc), 2**Kc):
                cs.append(dict(name=f"congruent.{method}.box{tuple(box)}.k{region}", fn=h_repair,
                               params=dict(method=method, box=list(box), K=Kc, region=region), profile="fp", portfolio=True, fmod_K=Kc,
                               oblig_timeout_s=Tc, cores=3, weight=3, soft=["*.congruent"]))
    # boundary inputs: within J ulps of every multiple of the range up to 2^K ranges away (faces, exact multiples)
    nboxes = [(0.1, 0.7), (-0.1, 0.2), (-5.12, 5.12)] if tier == "quick" else CATALOGUE + [(-5.12, 5.12)]
    J = 4 if tier == "quick" else 16
    for method in ("toroidal", "reflect"):
        for box in nboxes:
            for near in range(-(2**K) + 1, 2**K):
                cs.append(dict(name=f"near.{method}.box{tuple(box)}.m{near}", fn=h_repair,
                               params=dict(method=method, box=list(box), K=K, near=near, J=J), profile="fp", portfolio=(method == "toroidal"),
                               fmod_K=K, oblig_timeout_s=T, separate=True, cores=3 if method == "toroidal" else 1, weight=1))
    if tier == "thorough":
        for method in ("toroidal", "reflect"):
            cs.append(dict(name=f"repair.{method}.symbolic-box", fn=h_repair, params=dict(method=method, box=None, K=K),
                           profile="fp", portfolio=True, fmod_K=K, oblig_timeout_s=900, separate=True, optional=True, cores=3, weight=20,
                           soft=["*"]))
            for box in [(-20.0, 20.0), (-0.1, 0.2), (0.0, 1.0)]:
                cs.append(dict(name=f"repair.{method}.box{box}.K6", fn=h_repair, params=dict(method=method, box=list(box), K=6),
                               profile="fp", portfolio=True, fmod_K=6, oblig_timeout_s=600, separate=True, optional=True, cores=3, weight=10,
                               soft=["*"]))
    from .selftest import cases as _selftest_cases
    cs += _selftest_cases(tier)  # shim validation on constants (adversarial table), DESIGN 5.3
    return cs
