"""C13 - maximising f behaves exactly like minimising -f (decision by decision).

Twin harness: the same real component runs twice inside one path exploration, on (fitness f, maximize=True) and on
(-f, maximize=False) with identical genomes and identical draws; obligations: same selected indices / same verdicts /
same values handed to the library optimisers.  Profile 'real' (negation exact, ordering only).
"""
import numpy as np

from symx.core import land, lor, implies, lnot, ite, iff, is_sym, same_bits
from ._fake import mk_deme, mk_tree
from ._pop import mk_inds

PROPERTY = "C13"


def _twins(P, n, d=1, wrappers=0, concrete_genomes=None):
    from pyhms.core import problem as pp
    from pyhms.core.individual import Individual

    bounds = np.array([[-1.0, 1.0]] * d)
    pa = pp.FunctionProblem(lambda x: 0.0, bounds, True)
    pb = pp.FunctionProblem(lambda x: 0.0, bounds, False)
    for _ in range(wrappers):
        pa, pb = pp.EvalCountingProblem(pa), pp.EvalCountingProblem(pb)
    A, B = [], []
    for i in range(n):
        g = P.floats(f"g{i}", (d,), finite=True) if concrete_genomes is None else np.array(concrete_genomes[i], dtype=np.float64)
        f = P.float(f"f{i}", nn=True)
        A.append(Individual(g, pa, f))
        B.append(Individual(g, pb, -f))
    return A, B, pa, pb


def _idx(pool, x):
    for i, y in enumerate(pool):
        if x is y:
            return i
    return None


def h_order(P, n, wrappers=1):
    A, B, pa, pb = _twins(P, n, wrappers=wrappers)
    for i in range(n):
        for j in range(n):
            if i != j:
                P.oblige("order.lt_mirrors", bool(A[i] < A[j]) == bool(B[i] < B[j]))
                P.oblige("order.eq_mirrors", bool(A[i] == A[j]) == bool(B[i] == B[j]))
    P.oblige("order.max_same", _idx(A, max(A)) == _idx(B, max(B)))
    P.oblige("order.sorted_same", [_idx(A, x) for x in sorted(A, reverse=True)] == [_idx(B, x) for x in sorted(B, reverse=True)])
    P.oblige("order.worse_than_direction", bool(pa.worse_than(A[0].fitness, A[1].fitness)) == bool(A[0].fitness < A[1].fitness))


def h_topk(P, n, k):
    from pyhms.core.population import Population

    A, B, pa, pb = _twins(P, n)
    for i in range(n):
        for j in range(i + 1, n):
            P.assume(A[i].fitness != A[j].fitness, "pairwise distinct fitness (numpy's argsort tie order is unspecified)")
    ta = Population.from_individuals(A).topk(k)
    tb = Population.from_individuals(B).topk(k)
    sa = sorted(_which(ta.fitnesses[i], [x.fitness for x in A]) for i in range(k))
    sb = sorted(_which(tb.fitnesses[i], [x.fitness for x in B]) for i in range(k))
    P.oblige("topk.same_set", sa == sb)


def _which(v, vals):
    for i, w in enumerate(vals):
        if bool(v == w):
            return i
    return None


def h_tournament(P, n):
    from pyhms.core.population import Population
    from pyhms.demes.single_pop_eas.sea import TournamentSelection

    A, B, pa, pb = _twins(P, n)
    draws = P.ints("t", (n, 2), 0, n - 1)
    outs = []
    for pop in (A, B):
        import pyhms.demes.single_pop_eas.sea as sea_mod

        class Rnd:
            @staticmethod
            def randint(lo, hi, shape):
                return draws

        old = sea_mod.np
        P.env.patch(sea_mod, "np", _Np(old, Rnd))
        res = TournamentSelection()(Population.from_individuals(pop))
        P.env.patch(sea_mod, "np", old)
        outs.append(res)
    for i in range(n):
        P.oblige("tournament.same_winner_genome", land(*[same_bits(a, b) for a, b in zip(outs[0].genomes[i], outs[1].genomes[i])]))
        P.oblige("tournament.winner_fitness_mirrored", outs[0].fitnesses[i] == -outs[1].fitnesses[i])


class _Np:
    def __init__(self, real, rnd):
        self._real, self.random = real, rnd

    def __getattr__(self, k):
        return getattr(self._real, k)


def h_select(P, n, k):
    from pyhms.core.population import Population
    from pyhms.demes.single_pop_eas.sea import SEA

    A, B, pa, pb = _twins(P, 2 * n)
    allf = [x.fitness for x in A]
    for i in range(2 * n):
        for j in range(i + 1, 2 * n):
            P.assume(allf[i] != allf[j], "pairwise distinct fitness (numpy's argsort tie order is unspecified)")
    res = []
    for pop in (A, B):
        sea = SEA(variational_operators_pipeline=[], k_elites=k)
        out = sea.select_new_population(Population.from_individuals(pop[:n]), Population.from_individuals(pop[n:]))
        res.append(sorted(_which(out.fitnesses[i], [x.fitness for x in pop]) for i in range(n)))
    P.oblige("select.same_set", res[0] == res[1])


def h_filters(P, n, which, L=2):
    from pyhms.sprout import sprout_filters as sf
    from pyhms.sprout.sprout_candidates import DemeCandidates, DemeFeatures

    A, B, pa, pb = _twins(P, n)
    flags = [P.bool("act0"), P.bool("act1")]
    res = []
    for pop in (A, B):
        p0, p1 = mk_deme("p0", 0), mk_deme("p1", 0)
        kids = [mk_deme(f"k{j}", 1, active=flags[j]) for j in range(2)]
        tree = mk_tree([[p0, p1], kids])
        half = (n + 1) // 2
        cands = {p0: DemeCandidates(list(pop[:half]), DemeFeatures()), p1: DemeCandidates(list(pop[half:]), DemeFeatures())}
        if which == "demelimit":
            out = sf.DemeLimit(1)(cands, tree)
        else:
            out = sf.LevelLimit(L)(cands, tree)
        res.append(sorted(_idx(pop, x) for c in out.values() for x in c.individuals))
    P.oblige(f"{which}.same_kept_set", res[0] == res[1])


def h_best(P, n):
    from pyhms.sprout.sprout_generators import BestPerDeme

    A, B, pa, pb = _twins(P, n)
    res = []
    for pop in (A, B):
        d0 = mk_deme("root", 0, population=pop[: n // 2 + 1])
        d0._history.append([list(pop[n // 2 + 1:])] if pop[n // 2 + 1:] else [list(pop[:1])])
        leaf = mk_deme("0", 1, population=pop[:1])
        tree = mk_tree([[d0], [leaf]])
        b = d0.best_individual
        c = d0.best_current_individual
        t = tree.best_individual
        g = BestPerDeme()(tree)[d0].individuals[0]
        res.append((_idx(pop, b), _idx(pop, c), _idx(pop, t), _idx(pop, g)))
    P.oblige("best.same_individuals", res[0] == res[1])


def h_nbc(P, n, d=1):
    from pyhms.utils.clusterization import NearestBetterClustering

    A, B, pa, pb = _twins(P, n, d=d)
    for i in range(n):
        for j in range(i + 1, n):
            P.assume(lor(*[A[i].genome[t] != A[j].genome[t] for t in range(d)]), "pairwise distinct genomes")
    res = []
    for pop in (A, B):
        out = NearestBetterClustering(pop, 2.0, 1.0).cluster()
        res.append(sorted(_idx(pop, x) for x in out))
    P.oblige("nbc.same_result_set", res[0] == res[1])


def h_de(P, n=4):
    """DE replacement mask on (f,max) vs (-f,min) with identical trial vectors."""
    from pyhms.core.population import Population

    A, B, pa, pb = _twins(P, 2 * n)
    res = []
    for pop, prob in ((A, pa), (B, pb)):
        parent = Population.from_individuals(pop[:n])
        trial = Population.from_individuals(pop[n:])
        mask = (trial.fitnesses >= parent.fitnesses) if prob.maximize else (trial.fitnesses <= parent.fitnesses)
        res.append([bool(m) for m in mask])
    # the two lines above restate DE.run's comparison; the real thing, with the engine's own code path:
    from pyhms.demes.single_pop_eas.de import DE

    outs = []
    for pop in (A, B):
        eng = DE(use_dither=False, crossover_probability=0.9, f=0.8)
        trial_pop = Population.from_individuals(pop[n:])
        eng._mutation = lambda p: p
        eng._crossover = lambda par, mut, prob: Population(trial_pop.genomes, trial_pop.fitnesses, par.problem)
        out = eng.run(pop[:n])
        outs.append([_which(o.fitness, [x.fitness for x in pop]) for o in out])
    P.oblige("de.same_survivors", outs[0] == outs[1])


def h_pbest(P, n=4):
    """SHADE's current-to-pbest mutation with shared draws: the donors must be the same vectors in the two formulations
    (ties in fitness included: the ranking must not depend on the formulation)."""
    from pyhms.core.population import Population
    from pyhms.demes.single_pop_eas import de as de_mod

    A, B, pa, pb = _twins(P, n)
    P.env.patch(de_mod, "apply_bounds", lambda genomes, bounds, method: genomes)
    P.note_stub("apply_bounds = identity inside this twin (the donors are compared before the repair)")
    pick = P.ints("pbest_pick", (n,), 0, 1)
    parents = P.ints("parents", (n, 3), 0, n - 2)
    for i in range(n):
        for a in range(3):
            for b in range(a + 1, 3):
                P.assume(parents[i, a] != parents[i, b])
    outs = []
    for pop in (A, B):
        calls = {"choice": 0}

        class Rnd:
            @staticmethod
            def choice(a, size=None, replace=True, p=None):
                from symx import arr
                pool = np.asarray(arr._objarr(a))
                k = calls["choice"]
                calls["choice"] += 1
                if P.concrete:
                    if size is None:
                        return int(pool[int(pick[k % n])])
                    return np.array([int(pool[int(parents[(k - n) % n, j])]) for j in range(3)], dtype=np.int64)
                if size is None:
                    return arr._select_axis0(pool.astype(object), pick[k % n])
                row = (k - n) % n
                vals = [arr._select_axis0(pool.astype(object), parents[row, j]) for j in range(3)]
                out = np.empty(3, dtype=object)
                for j in range(3):
                    out[j] = vals[j]
                return out.view(arr.SArr)

        old = de_mod.np
        P.env.patch(de_mod, "np", _Np(old, Rnd))
        res = de_mod.CurrentToPBestMutation()(Population.from_individuals(pop), None, np.full((n, 1), 0.5), np.full(n, 0.5))
        P.env.patch(de_mod, "np", old)
        outs.append(res)
    for i in range(n):
        P.oblige("shade.pbest_donor_same", outs[0].genomes[i, 0] == outs[1].genomes[i, 0])


def h_r5s(P, n=6):
    from pyhms.utils.r5s import R5SSelection

    pts = [[0.0, 0.0], [1.0, 0.2], [0.1, 0.9], [-0.8, 0.4], [0.5, -0.7], [-0.3, -0.6], [0.9, 0.9]][:n]
    A, B, pa, pb = _twins(P, n, d=2, concrete_genomes=pts)
    for i in range(n):
        for j in range(i + 1, n):
            P.assume(A[i].fitness != A[j].fitness, "pairwise distinct fitness")
    res = []
    for pop in (A, B):
        out = R5SSelection()(list(pop))
        res.append([_idx(pop, x) for x in out])
    P.oblige("r5s.same_selection", res[0] == res[1])
    # and the selection starts from the best individuals: the first selected one is the best of all
    best = max(A)
    P.oblige("r5s.best_first", res[0][0] == _idx(A, best))


def h_cma_direction(P, lam=2):
    """The values handed to cma's tell() (cma minimises) must be the same in the two formulations."""
    told = _library_twin(P, "cma", lam)
    for a, b in zip(told[0], told[1]):
        P.oblige("cma.tell_values_same", a == b)


def h_local_direction(P):
    told = _library_twin(P, "local", 1)
    for a, b in zip(told[0], told[1]):
        P.oblige("local.objective_handed_to_scipy_same", a == b)
    P.oblige("local.stored_fitness_is_objective_value", told[2])


def _library_twin(P, which, lam):
    from pyhms.core import problem as pp
    from pyhms.core.individual import Individual
    from pyhms.demes.cma_deme import CMADeme
    from pyhms.demes.local_deme import LocalDeme
    import pyhms.demes.local_deme as ld

    F = P.uf("F", 2)
    bounds = np.array([[-1.0, 1.0]] * 2)
    pts = [np.array([0.1 * (i + 1), -0.2 * (i + 1)]) for i in range(4)]
    results = []
    stored_ok = True
    for maximize in (True, False):
        fun = (lambda x: F(x)) if maximize else (lambda x: -F(x))
        prob = pp.EvalCountingProblem(pp.FunctionProblem(fun, bounds, maximize))
        if which == "cma":
            d = mk_deme("0", 1, cls=CMADeme, population=None)
            d._problem = prob
            d.generations = 1
            pop = [Individual(pts[i], prob) for i in range(lam)]
            Individual.evaluate_population(pop)
            d._history = [[pop]]
            rec = []

            class ES:
                def tell(self, genomes, values):
                    rec.extend(values)

                def ask(self):
                    return [pts[2], pts[3]][:lam]

                def stop(self):
                    return False

            d._cma_es = ES()
            d._lsc = lambda deme: False
            t = mk_tree([[d]])
            t._gsc = lambda tr: False
            d.run_metaepoch(t)
            results.append(rec)
        else:
            seed = Individual(pts[0], prob)
            seed.evaluate()
            d = mk_deme("0", 1, cls=LocalDeme, population=[seed], seed=seed)
            d._problem = prob
            d._method = "L-BFGS-B"
            d._n_evals = 0
            d._run_history = []
            d._options = {}
            d._bounds = bounds
            rec = []

            class Res:
                pass

            class SOPT:
                @staticmethod
                def minimize(fun, x0, method=None, bounds=None, callback=None, options=None):
                    v = fun(pts[1])
                    rec.append(v)
                    r = Res()
                    r.x, r.fun, r.nfev = pts[1], v, 1
                    callback(r)
                    return r

            P.env.patch(ld, "sopt", SOPT)
            d.run_metaepoch(None)
            results.append(rec)
            ind = d._run_history[0]
            want = F(pts[1]) if maximize else -F(pts[1])
            ok = ind.fitness == want
            stored_ok = land(stored_ok, ok)
    results.append(stored_ok)
    return results


BOUNDS = {"quick": {"n": "3-4 individuals (R5S 6), d 1-2", "draws": "shared symbolic tournament indices"},
          "thorough": {"n": "4-5 (R5S 7)"}}
OUTSIDE = ["whole-run twin clause beyond the listed engine mixes / run lengths (it is decided for them: twinrun.* cases, concrete seeded runs under a shared symbolic schedule)", "MWEA and FitnessSteadiness (excluded by the property)",
           "ties in Population.topk / select_new_population (numpy's argsort tie order is unspecified; same *values* are selected)"]
ASSUMPTIONS = ["profile 'real': fitness values are mathematical reals, negation exact; no NaN"]


def cases(tier):
    R = dict(profile="real", budget_s=1500)
    n = 3 if tier == "quick" else 4
    cs = [
        dict(name=f"order.n{n}", fn=h_order, params=dict(n=n), **R),
        dict(name=f"topk.n{n}.k1", fn=h_topk, params=dict(n=n, k=1), **R),
        dict(name=f"topk.n{n + 1}.k2", fn=h_topk, params=dict(n=n + 1, k=2), **R),
        dict(name="tournament.n3", fn=h_tournament, params=dict(n=3), **R),
        dict(name="select.n2.k1", fn=h_select, params=dict(n=2, k=1), **R),
        dict(name="demelimit.n4", fn=h_filters, params=dict(n=4, which="demelimit"), **R),
        dict(name="levellimit.n4.L2", fn=h_filters, params=dict(n=4, which="levellimit", L=2), **R),
        dict(name="levellimit.n3.L1", fn=h_filters, params=dict(n=3, which="levellimit", L=1), **R),
        dict(name=f"best.n{n + 1}", fn=h_best, params=dict(n=n + 1), **R),
        dict(name="nbc.n3.d1", fn=h_nbc, params=dict(n=3, d=1), **R),
        dict(name="de.n2", fn=h_de, params=dict(n=2), **R),
        dict(name="shade.pbest.n4", fn=h_pbest, params=dict(n=4), weight=20, **R),
        dict(name="r5s.n6", fn=h_r5s, params=dict(n=6), weight=30, **R),
        dict(name="cma.direction", fn=h_cma_direction, params=dict(lam=2), **R),
        dict(name="local.direction", fn=h_local_direction, params=dict(), **R),
    ]
    if tier == "thorough":
        cs += [dict(name="select.n3.k2", fn=h_select, params=dict(n=3, k=2), **R),
               dict(name="nbc.n4.d1", fn=h_nbc, params=dict(n=4, d=1), **R),
               dict(name="nbc.n3.d2", fn=h_nbc, params=dict(n=3, d=2), **R),
               dict(name="r5s.n7", fn=h_r5s, params=dict(n=7), weight=60, **R),
               dict(name="de.n3", fn=h_de, params=dict(n=3), **R)]
    from .trun import twin_cases
    cs += twin_cases(tier)
    return cs
