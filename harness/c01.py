"""C01 - the objective is never evaluated outside the box.

Decided as: every evaluation site of pyhms' own code only passes in-box points given in-box parents, for every draw; library engines
are handed the box correctly; end-to-end on real trees every logged point, stored genome and seed is inside the box.
"""
import numpy as np

from symx.core import land, lor, implies, lnot, ite, iff, is_sym, same_bits
from ._pop import mk_problem, mk_inds, in_box, stub_apply_bounds, genome_list
from .trun import run_cases
from .tstep import tree_cases

PROPERTY = "C01"
BOXES = [(-20.0, 20.0), (0.0, 1.0), (-0.1, 0.2), (1e-3, 1e3), (-3.0, 4.0), (0.1, 0.7)]


def _all_calls_in_box(P, F, bounds, name, since=0):
    for x, v in F.log()[since:]:
        P.oblige(name, in_box(genome_list(x), bounds))


def h_xover(P, box, n=2, probability=1.0):
    """real ArithmeticCrossover: children stay inside the box when both parents are (bit-precise float64, symbolic alpha)."""
    from pyhms.core.population import Population
    from pyhms.demes.single_pop_eas import sea

    prob, F, maximize, bounds = mk_problem(P, 1, box=box, maximize=False)
    inds = mk_inds(P, prob, n, 1, "p", fitness="free", bounds=bounds, allow_inf=False)
    out = sea.ArithmeticCrossover(probability=probability, evaluate_fitness=False)(Population.from_individuals(inds))
    P.oblige("xover.size", out.size == n)
    for i in range(n):
        P.observe(f"child{i}", out.genomes[i, 0])
        P.oblige("xover.child_in_box", in_box([out.genomes[i, 0]], bounds))


def h_scale(P, which, box):
    """real LHSDeme.run / SobolDeme.run on an injected deme: lower + sample*(upper-lower) with the sampler's documented range [0,1)."""
    from pyhms.core import problem as pp
    from pyhms.demes.lhs_deme import LHSDeme
    from pyhms.demes.sobol_deme import SobolDeme
    from ._fake import mk_deme

    prob, F, maximize, bounds = mk_problem(P, 1, box=box, maximize=False)
    d = mk_deme("root", 0, cls=LHSDeme if which == "lhs" else SobolDeme)
    d._problem = pp.EvalCountingProblem(prob)
    d._pop_size = 1
    d.lower_bounds, d.upper_bounds = bounds[:, 0], bounds[:, 1]

    class Sampler:
        def random(self, n):
            s = P.floats(P._n("unit"), (n, 1), finite=True)
            for v in s.flat if hasattr(s, "flat") else [s]:
                P.assume(land(v >= 0.0, v < 1.0))
            return s

    P.note_stub("scipy.stats.qmc sampler: random(n) returns arbitrary values in [0,1)")
    d.sampler = Sampler()
    d.run()
    _all_calls_in_box(P, F, bounds, f"{which}.evaluated_point_in_box")
    for x in d.current_population:
        P.oblige(f"{which}.stored_genome_in_box", in_box(genome_list(x.genome), bounds))
        P.observe("g", genome_list(x.genome)[0])


def h_sample_normal(P, box, unroll=2):
    from pyhms.initializers import sample_normal, sample_uniform

    bounds = np.array([[float(box[0]), float(box[1])]]) if not isinstance(box[0], (list, tuple)) else np.array(box, dtype=np.float64)
    c = P.floats("center", (len(bounds),), finite=True)
    P.assume(in_box(c, bounds))
    create = sample_normal(c, 0.5, bounds)
    tries = [0]
    import pyhms.initializers as ini
    orig = ini.nrand.multivariate_normal

    def counted(*a, **k):
        tries[0] += 1
        if tries[0] > unroll:
            P.cut(f"rejection sampling loop unrolled {unroll}x")
        return orig(*a, **k)

    P.env.patch(ini.nrand, "_ov", dict(ini.nrand._ov, multivariate_normal=counted)) if hasattr(ini.nrand, "_ov") else None
    x = create()
    P.oblige("sample_normal.in_box", in_box(genome_list(x), bounds))
    u = sample_uniform(bounds)()
    P.oblige("sample_uniform.in_box", in_box(genome_list(u), bounds))


def h_child_init(P, kind, unroll=2):
    """The real constructor of a sprouted population deme (EADeme / DEDeme / SHADEDeme) with a symbolic seed anywhere in the box and
    arbitrary normal draws: every point evaluated for the initial population, and every stored genome, is inside the box."""
    from pyhms import config as C
    from pyhms.core import problem as pp
    from pyhms.core.individual import Individual
    from pyhms.demes.abstract_deme import DemeInitArgs
    from pyhms.demes.de_deme import DEDeme
    from pyhms.demes.ea_deme import EADeme
    from pyhms.demes.shade_deme import SHADEDeme
    from pyhms.demes.single_pop_eas.sea import SEA
    from pyhms.logging_ import get_logger
    import pyhms.initializers as ini

    bounds = np.array([[-1.0, 1.0], [-30.0, 30.0]])
    F = P.uf("F", 2)
    prob = pp.FunctionProblem(F, bounds, False)
    g = P.floats("seed", (2,), finite=True)
    P.assume(in_box(g, bounds))
    seed = Individual(g, prob, F(g))
    base = F.n_calls()
    tries = [0]
    orig = ini.nrand.multivariate_normal

    def counted(*a, **k):
        tries[0] += 1
        if tries[0] > unroll + 1:
            P.cut(f"rejection sampling unrolled {unroll}x per individual")
        return orig(*a, **k)

    P.env.patch(ini.nrand, "_ov", dict(ini.nrand._ov, multivariate_normal=counted))
    if kind == "ea":
        cfg, cls = C.EALevelConfig(ea_class=SEA, generations=1, problem=prob, pop_size=2, mutation_std=0.5, lsc=None, sample_std_dev=1.0), EADeme
    elif kind == "de":
        cfg, cls = C.DELevelConfig(generations=1, problem=prob, pop_size=2, lsc=None, sample_std_dev=1.0), DEDeme
    else:
        cfg, cls = C.SHADELevelConfig(generations=1, problem=prob, pop_size=2, lsc=None, memory_size=2, sample_std_dev=1.0), SHADEDeme
    d = cls(DemeInitArgs(id="0", level=1, config=cfg, logger=get_logger(), started_at=1, sprout_seed=seed, random_seed=None, parent_deme=None))
    _all_calls_in_box(P, F, bounds, f"child.{kind}.evaluated_point_in_box", since=base)
    pop = d.current_population
    P.oblige(f"child.{kind}.population_size", len(pop) == 2)
    for x in pop:
        P.oblige(f"child.{kind}.stored_genome_in_box", in_box(genome_list(x.genome), bounds))
    from symx.core import same_bits as _sb
    P.oblige(f"child.{kind}.seed_in_initial_population", lor(*[land(*[_sb(a, b) for a, b in zip(genome_list(x.genome), genome_list(g))]) for x in pop]))


def h_pipeline(P, engine, n=2, d=1, box=(-1.0, 1.0)):
    """Composed engine step with the repair / crossover kernels replaced by their contracts: nothing downstream of a repair moves a
    point again, and every evaluation site receives repaired points only."""
    from pyhms.demes.single_pop_eas import sea
    from pyhms.demes.single_pop_eas.de import DE

    prob, F, maximize, bounds = mk_problem(P, d, box=box)
    stub_apply_bounds(P)
    _stub_convex(P, bounds)
    parents = mk_inds(P, prob, n, d, "p", fitness="F", F=F, bounds=bounds)
    base = F.n_calls()
    kw = {}
    if engine in ("de", "de-dither"):
        eng = DE(use_dither=(engine == "de-dither"), crossover_probability=0.9, f=0.8)
    else:
        cls = {"sea": sea.SEA, "sea-xover": sea.SEAWithCrossover, "ga": sea.GAStyleSEA, "sea-adaptive": sea.SEAWithAdaptiveMutation}[engine]
        eng = cls.create(problem=prob, mutation_std=0.5, p_mutation=0.5, p_crossover=0.7, k_elites=1)
        if engine == "sea-adaptive":
            kw = {"mutation_std": 0.7}
    out = eng.run(parents, **kw)
    _all_calls_in_box(P, F, bounds, f"{engine}.evaluated_point_in_box", since=base)
    for x in out:
        P.oblige(f"{engine}.returned_genome_in_box", in_box(genome_list(x.genome), bounds))


def _stub_convex(P, bounds):
    """contract of the convex combination alpha*a + (1-alpha)*b decided by h_xover: the result lies in the box of its (in-box) parents.
    Implemented by abstracting symbolic*symbolic products and constraining the crossover children."""
    from pyhms.demes.single_pop_eas import sea

    P.note_stub("ArithmeticCrossover replaced by its contract (children arbitrary points of the box when parents are in the box; decided by the xover cases)")

    class Contract(sea.ArithmeticCrossover):
        def __call__(self, population):
            pc = population.copy()
            new = P.floats(P._n("xchild"), np.shape(pc.genomes), finite=True)
            for idx in np.ndindex(*np.shape(new)):
                P.assume(land(new[idx] >= bounds[idx[-1]][0], new[idx] <= bounds[idx[-1]][1]))
            pc.update_genome(new)
            if self.evaluate_fitness:
                pc.evaluate()
            return pc

    P.env.patch(sea, "ArithmeticCrossover", Contract)


def h_library_bounds(P, which):
    """The box handed to cma / scipy is the problem's box, the start point is the seed and lies inside it."""
    from pyhms import config as C
    from pyhms.core import problem as pp
    from pyhms.core.individual import Individual
    from pyhms.demes.abstract_deme import DemeInitArgs
    from pyhms.logging_ import get_logger
    import pyhms.demes.cma_deme as cm
    import pyhms.demes.local_deme as ld
    from ._fake import mk_deme

    lo = [P.float(f"lo{j}", finite=True) for j in range(2)]
    hi = [P.float(f"hi{j}", finite=True) for j in range(2)]
    for j in range(2):
        P.assume(lo[j] < hi[j])
    bounds = P.mk_array([lo[0], hi[0], lo[1], hi[1]], (2, 2), float)
    F = P.uf("F", 2)
    prob = pp.FunctionProblem(F, bounds, False)
    g = P.floats("seed", (2,), finite=True)
    P.assume(in_box(g, [[lo[0], hi[0]], [lo[1], hi[1]]]))
    seed = Individual(g, prob, F(g))
    captured = {}
    if which == "cma":
        class ES:
            def __init__(self, x0, sigma0, inopts=None):
                captured.update(x0=x0, sigma0=sigma0, opts=inopts)

            def ask(self):
                return [g]

        P.env.patch(cm, "CMAEvolutionStrategy", ES)
        cfg = C.CMALevelConfig(problem=prob, lsc=None, generations=1, sigma0=1.0)
        cm.CMADeme(DemeInitArgs(id="0", level=1, config=cfg, logger=get_logger(), started_at=1, sprout_seed=seed, random_seed=None, parent_deme=None))
        b = captured["opts"]["bounds"]
        P.oblige("cma.bounds_option_is_problem_box", len(b) == 2 and all(bool(same_bits(b[0][j], lo[j])) and bool(same_bits(b[1][j], hi[j])) for j in range(2)))
        P.oblige("cma.x0_is_seed", captured["x0"] is g)
    else:
        class SOPT:
            @staticmethod
            def minimize(fun, x0, method=None, bounds=None, callback=None, options=None):
                captured.update(x0=x0, bounds=bounds, method=method)

                class R:
                    nfev = 0
                return R()

        P.env.patch(ld, "sopt", SOPT)
        cfg = C.LocalOptimizationConfig(problem=prob, lsc=None)
        d = ld.LocalDeme(DemeInitArgs(id="0", level=1, config=cfg, logger=get_logger(), started_at=1, sprout_seed=seed, random_seed=None, parent_deme=None))
        d.log = lambda m: None
        d.run_metaepoch(None)
        b = captured["bounds"]
        P.oblige("local.bounds_are_problem_box", all(bool(same_bits(b[j][0], lo[j])) and bool(same_bits(b[j][1], hi[j])) for j in range(2)))
        P.oblige("local.x0_is_seed", captured["x0"] is g)


BOUNDS = {"quick": {"kernels": "catalogue of 6 boxes, d=1, symbolic genomes/draws (bit-precise float64)", "pipelines": "n=2 (DE 4), d=1, kernels by contract",
                    "end_to_end": "tree-step / bounded-run cases (concrete numbers, symbolic schedule): every logged point and stored genome"},
          "thorough": {"kernels": "11 boxes"}}
OUTSIDE = ["what cma, L-BFGS-B and the QMC samplers do internally (contracts: stay inside the box they were given / return [0,1))",
           "MWEA's multiwinner selection", "SHADE's parameter adaptation"]
ASSUMPTIONS = ["apply_bounds contract from C17; ArithmeticCrossover contract from the xover cases"]


def cases(tier):
    R = dict(profile="fp", budget_s=1800)
    cs = []
    boxes = BOXES[:4] if tier == "quick" else BOXES
    for box in boxes:
        X = dict(portfolio=True, oblig_timeout_s=400, separate=True, cores=2, weight=10, decide_timeout_ms=3000, validate_paths=1)
        cs.append(dict(name=f"xover.box{box}", fn=h_xover, params=dict(box=list(box)), **X, **R))
        cs.append(dict(name=f"xover.p0.7.n3.box{box}", fn=h_xover, params=dict(box=list(box), n=3, probability=0.7), **X, **R))
        for which in ("lhs", "sobol"):
            cs.append(dict(name=f"scale.{which}.box{box}", fn=h_scale, params=dict(which=which, box=list(box)), portfolio=True, oblig_timeout_s=300, cores=3, **R))
    cs.append(dict(name="sample_normal", fn=h_sample_normal, params=dict(box=[-0.1, 0.2]), oblig_timeout_s=60, **R))
    cs.append(dict(name="sample_normal.d2.unequal_ranges", fn=h_sample_normal, params=dict(box=[[-1.0, 1.0], [-30.0, 30.0]]), oblig_timeout_s=60, **R))
    for k in ("ea", "de", "shade"):
        cs.append(dict(name=f"child_init.{k}", fn=h_child_init, params=dict(kind=k), oblig_timeout_s=60, **R))
    for e in ("sea", "sea-xover", "ga", "sea-adaptive"):
        cs.append(dict(name=f"pipeline.{e}", fn=h_pipeline, params=dict(engine=e), oblig_timeout_s=60, abstract_mul=True, weight=5, **R))
    cs.append(dict(name="pipeline.de", fn=h_pipeline, params=dict(engine="de", n=4), oblig_timeout_s=60, abstract_mul=True, weight=30, **R))
    if tier == "thorough":
        cs.append(dict(name="pipeline.de-dither", fn=h_pipeline, params=dict(engine="de-dither", n=4), oblig_timeout_s=60, abstract_mul=True, weight=30, **R))
    for which in ("cma", "local"):
        cs.append(dict(name=f"library_bounds.{which}", fn=h_library_bounds, params=dict(which=which), oblig_timeout_s=60, **R))
    cs += tree_cases(PROPERTY, tier, hibernation_values=(False,)) + run_cases(PROPERTY, tier, hib_values=(False,))
    # the repair kernels themselves (shared with C17): the result of every bound repair lies in the box for inputs up to 8 ranges away
    from . import c17
    cs += [c for c in c17.cases(tier) if c["name"].startswith(("repair.reflect", "repair.toroidal"))]
    return cs
