"""C20 - reports agree with the tree; accessors are pure.

(a) real format_deme / DemeTree.tree / DemeTree.summary on directly constructed trees with symbolic float64 fitness and symbolic
    evaluation counters; float->text rendering is stubbed to opaque tokens (one token per z3 term), so a report that prints another
    deme's number, or marks the wrong deme, is caught by token identity.
(b) purity of the accessors on real trees after real metaepochs (bounded runs under every local-stop schedule).
"""
import numpy as np

from symx.core import land, lor, implies, lnot, ite, iff, is_sym, feq
from ._fake import mk_deme, mk_tree
from ._pop import mk_problem
from .trun import run_cases

PROPERTY = "C20"


def _mk(P, prob, id, level, nind, nmeta, seed=None):
    from pyhms.core.individual import Individual
    from pyhms.core.problem import EvalCountingProblem

    hist = []
    k = 0
    for m in range(nmeta):
        gen = []
        for i in range(nind):
            f = P.float(f"f.{id}.{m}.{i}", nn=True)
            gen.append(Individual(np.array([0.25 * (k + 1), -0.5 * (k + 1)]), prob, f))
            k += 1
        hist.append([gen])
    d = mk_deme(id, level, seed=seed)
    d._history = hist
    d._problem = EvalCountingProblem(prob)
    d._problem._n_evals = P.int(f"evals.{id}", 0, 1000)
    return d


def h_report(P, shape, level_summary=True):
    """shape: list of (id, level, parent index or None, metaepochs recorded)"""
    from pyhms.config import TreeConfig, CMALevelConfig
    from pyhms.core.individual import Individual

    prob, F, maximize, bounds = mk_problem(P, 2)
    demes = []
    levels = [[], [], []]
    for (id, level, parent, nmeta) in shape:
        seed = None if parent is None else Individual(np.array([1.0, 2.0]), prob, 0.5)
        d = _mk(P, prob, id, level, 1, nmeta, seed)
        demes.append(d)
        levels[level].append(d)
        if parent is not None:
            demes[parent]._children.append(d)
    for i in range(len(demes)):
        for j in range(i + 1, len(demes)):
            P.assume(demes[i].n_evaluations != demes[j].n_evaluations, "evaluation counters pairwise distinct (they identify the report lines)")
    height = max(l for (_, l, _, _) in shape) + 1
    tree = mk_tree(levels[:height], metaepoch_count=3)
    tree.config = TreeConfig([CMALevelConfig(problem=prob, lsc=None, generations=1) for _ in range(height)], None, None)
    best = tree.best_individual
    text = tree.tree()
    lines = text.split("\n")
    shown = [d for d in demes if d._sprout_seed is None or d.metaepoch_count >= 1]
    P.oblige("tree.one_line_per_displayed_deme", len([l for l in lines if l.strip()]) == len(shown))
    for d in shown:
        mine = [l for l in lines if f"evals: {d.n_evaluations}" in l]
        P.oblige("tree.line_carries_own_evaluation_count", len(mine) == 1)
        if len(mine) == 1:
            line = mine[0]
            tag = "root" if d._sprout_seed is None else d.id
            P.oblige("tree.line_names_the_deme", f"{type(d).__name__} {tag}" in line)
            is_best = feq(d.best_individual.fitness, best.fitness)
            marked = " *** " in line
            P.oblige("tree.marker_iff_deme_best_equals_global_best", iff(is_best, marked) if is_sym(is_best) else (bool(is_best) == marked))
            P.oblige("tree.line_shows_own_best_fitness", format(d.best_individual.fitness, ".2e") in line)
    hidden = [d for d in demes if d not in shown]
    for d in hidden:
        P.oblige("tree.fresh_demes_not_listed", not any(f"evals: {d.n_evaluations}" in l for l in lines))
    s = tree.summary(level_summary=level_summary)
    sl = s.split("\n")
    P.oblige("summary.metaepoch_count", sl[0] == f"Metaepoch count: {tree.metaepoch_count}")
    P.oblige("summary.best_fitness", sl[1] == f"Best fitness: {format(best.fitness, '.4e')}")
    total = sum(d.n_evaluations for d in demes)
    P.oblige("summary.total_evaluations", f"Number of evaluations: {total}" in sl)
    P.oblige("summary.deme_count", f"Number of demes: {len(demes)}" in sl)
    if level_summary:
        for lvl in range(height):
            i = sl.index(f"Level {lvl + 1}.") if f"Level {lvl + 1}." in sl else None
            P.oblige("summary.level_section_present", i is not None)
            if i is None:
                continue
            block = sl[i: i + 6]
            lv = levels[lvl]
            lsum = sum(d.n_evaluations for d in lv)
            P.oblige("summary.level_evaluations", f"Number of evaluations: {lsum}" in block)
            P.oblige("summary.level_deme_count", f"Number of demes: {len(lv)}" in block)
            lbest = max(d.best_individual for d in lv)
            P.oblige("summary.level_best_fitness", f"Best fitness: {format(lbest.fitness, '.4e')}" in block)
    P.oblige("summary.contains_tree", text in s)


BOUNDS = {"quick": {"report trees": "root + up to 3 demes on 2-3 levels, one individual per recorded generation, symbolic fitness/counters",
                    "purity": "bounded real runs (see C06), every accessor called twice after every metaepoch"}}
OUTSIDE = ["the digits printed for floats (':.4e', ':#.2f') and numpy's rendering of genomes (stubbed to tokens)", "tree_diagram, plots, animations"]
ASSUMPTIONS = ["format(symbolic float, spec) is an opaque token per z3 term (float->text is not modelled)"]


def cases(tier):
    R = dict(profile="fp", budget_s=1500, oblig_timeout_s=60)
    shapes = {
        "root-only": [("root", 0, None, 2)],
        "two-leaves": [("root", 0, None, 2), ("0", 1, 0, 2), ("1", 1, 0, 2)],
        "fresh-leaf": [("root", 0, None, 2), ("0", 1, 0, 2), ("1", 1, 0, 1)],
        "three-levels": [("root", 0, None, 2), ("0", 1, 0, 2), ("0/0", 2, 1, 2)],
    }
    cs = []
    for name, shp in shapes.items():
        cs.append(dict(name=f"report.{name}", fn=h_report, params=dict(shape=[list(x) for x in shp]), weight=len(shp) ** 2, **R))
    cs += run_cases(PROPERTY, tier, hib_values=(True,))
    return cs
