"""C02 - stored individuals carry the true fitness of their genome; recorded history is immutable.

Real code executed: Population.update_genome / evaluate / from_individuals / to_individuals, Individual.evaluate, the SEA operators and
engine pipelines, DE.run, CMADeme.run_metaepoch, LocalDeme._history_callback, minimize (via C03's harness).  Objective = uninterpreted F.
"""
import numpy as np

from symx.core import land, lor, implies, lnot, ite, iff, is_sym, same_bits, feq
from ._pop import mk_problem, mk_inds, in_box, stub_apply_bounds, same_genome, genome_list
from .trun import run_cases

PROPERTY = "C02"


def _consistent(P, F, ind, maximize=None):
    """fitness == F(genome), or the documented cut-off sentinel (+-inf)"""
    want = F(ind.genome)
    return same_bits(ind.fitness, want)


def _snapshot(inds):
    return [(x, x.genome, [v for v in genome_list(x.genome)], x.fitness) for x in inds]


def _frame(P, snap, name):
    for (x, g, vals, f) in snap:
        P.oblige(f"{name}.parents_untouched", x.genome is g and all(a is b or not is_sym(a) and a == b for a, b in zip(genome_list(x.genome), vals))
                 and (x.fitness is f or (not is_sym(f) and x.fitness == f)))


def h_update(P, n, d):
    from pyhms.core.population import Population

    prob, F, maximize, bounds = mk_problem(P, d)
    inds = mk_inds(P, prob, n, d, "p", fitness="F", F=F)
    pop = Population.from_individuals(inds)
    new = P.floats("new", (n, d), finite=True)
    old_rows = [[pop.genomes[i, j] for j in range(d)] for i in range(n)]
    base = F.n_calls()
    pop.update_genome(new)
    changed = [bool(lor(*[lnot(feq(new[i, j], old_rows[i][j])) for j in range(d)])) for i in range(n)]
    for i in range(n):
        if changed[i]:
            P.oblige("update.changed_row_marked_for_evaluation", bool(np.isnan(pop.fitnesses[i])) is True
                     and bool(land(*[same_bits(pop.genomes[i, j], new[i, j]) for j in range(d)])))
        else:
            P.oblige("update.unchanged_row_keeps_fitness", bool(same_bits(pop.fitnesses[i], inds[i].fitness)))
    pop.evaluate()
    P.oblige("evaluate.exactly_the_marked_rows", F.n_calls() - base == sum(changed))
    pure = F.n_calls()
    for i, x in enumerate(pop.to_individuals()):
        P.oblige("evaluate.fitness_is_objective_of_genome", _consistent(P, F, x))
    again = F.n_calls()
    pop.evaluate()
    P.oblige("evaluate.idempotent", F.n_calls() == again)


def h_operator(P, op, n, d=1):
    from pyhms.core.population import Population
    from pyhms.demes.single_pop_eas import sea

    prob, F, maximize, bounds = mk_problem(P, d)
    stub_apply_bounds(P)
    inds = mk_inds(P, prob, n, d, "p", fitness="F", F=F, bounds=bounds)
    snap = _snapshot(inds)
    pop = Population.from_individuals(inds)
    if op == "gauss":
        o = sea.GaussianMutation(std=0.5, bounds=bounds, probability=0.5)
    elif op == "uniform":
        o = sea.UniformMutation(bounds=bounds, probability=0.5)
    elif op == "xover":
        o = sea.ArithmeticCrossover(probability=0.7, evaluate_fitness=True)
    else:
        o = sea.TournamentSelection()
    out = o(pop)
    P.oblige(f"{op}.size", out.size == n)
    for x in out.to_individuals():
        P.oblige(f"{op}.fitness_is_objective_of_genome", _consistent(P, F, x))
    # the operator worked on copies
    P.oblige(f"{op}.input_population_untouched", all(bool(same_bits(pop.fitnesses[i], inds[i].fitness)) for i in range(n))
             and all(bool(same_bits(pop.genomes[i, j], genome_list(inds[i].genome)[j])) for i in range(n) for j in range(d)))
    _frame(P, snap, op)


def h_de_crossover(P, n=1, d=1):
    """DE / SHADE crossover + evaluation on its own: a trial keeps its parent's fitness only if its genome is identical."""
    from pyhms.core.population import Population
    from pyhms.demes.single_pop_eas.de import Crossover

    prob, F, maximize, bounds = mk_problem(P, d)
    inds = mk_inds(P, prob, n, d, "p", fitness="F", F=F, bounds=bounds)
    pop = Population.from_individuals(inds)
    donors = P.floats("donor", (n, d), finite=True)
    for idx in np.ndindex(n, d):
        P.assume(land(donors[idx] >= bounds[idx[-1]][0], donors[idx] <= bounds[idx[-1]][1]))
    mutated = Population(donors, P.np.full(n, np.nan) if False else np.full(n, np.nan), prob)
    base = F.n_calls()
    out = Crossover()(pop, mutated, 0.9)
    out.evaluate()
    for x in out.to_individuals():
        P.oblige("de_crossover.fitness_is_objective_of_genome", _consistent(P, F, x))


def h_cache(P):
    """FunctionProblem(use_cache=True): a cached answer is only ever returned for the very same genome (hunt mode: real float64 genomes
    that agree in numpy's printed digits, uninterpreted objective)."""
    from pyhms.core import problem as pp

    F = P.uf("F", 2)
    maximize = P.bool("maximize")
    prob = pp.EvalCountingProblem(pp.FunctionProblem(F, np.array([[-2.0, 2.0], [-2.0, 2.0]]), maximize, use_cache=True))
    g1 = np.array([1.5000000174723578, -0.7500000269401779])
    g2 = g1 + np.array([3e-12, -2e-12])
    g3 = np.array([0.25, 0.5])
    for i, g in enumerate((g1, g2, g3, g1, g2)):
        v = prob.evaluate(g)
        P.oblige("cache.value_is_objective_of_this_genome", same_bits(v, F(g)))
        P.observe(f"v{i}", v)


def h_engine(P, engine, n, d=1):
    from pyhms.demes.single_pop_eas import sea
    from pyhms.demes.single_pop_eas.de import DE

    prob, F, maximize, bounds = mk_problem(P, d)
    stub_apply_bounds(P)
    if engine in ("sea-xover", "ga"):
        # the crossover's own arithmetic is decided by operator.xover (C02) and xover.* (C01); inside the composed engine it is
        # replaced by its contract (children = arbitrary in-box points, fitness invalidated through the real update_genome)
        from .c01 import _stub_convex
        _stub_convex(P, bounds)
    parents = mk_inds(P, prob, n, d, "p", fitness="F", F=F, bounds=bounds)
    snap = _snapshot(parents)
    kw = {}
    if engine == "de":
        eng = DE(use_dither=False, crossover_probability=0.9, f=0.8)
    elif engine == "de-dither":
        eng = DE(use_dither=True, crossover_probability=0.9)
    else:
        cls = {"sea": sea.SEA, "sea-xover": sea.SEAWithCrossover, "ga": sea.GAStyleSEA, "sea-adaptive": sea.SEAWithAdaptiveMutation}[engine]
        eng = cls.create(problem=prob, mutation_std=0.5, p_mutation=0.5, p_crossover=0.7, k_elites=1)
        if engine == "sea-adaptive":
            kw = {"mutation_std": 0.7}
    base_calls = F.n_calls()
    out = eng.run(parents, **kw)
    evaluated = F.log()[base_calls:]
    from ._pop import not_worse
    for x, v in evaluated:
        # selection never forgets the best evaluated point: nothing the objective returned is better than everything that was kept
        P.oblige(f"{engine}.nothing_evaluated_is_lost", lor(*[not_worse(o.fitness, v, maximize) for o in out]))
    P.oblige(f"{engine}.size", len(out) == n)
    for x in out:
        P.oblige(f"{engine}.fitness_is_objective_of_genome", _consistent(P, F, x))
    _frame(P, snap, engine)
    for x in out:
        P.oblige(f"{engine}.offspring_do_not_alias_parents", not any(x.genome is p.genome or x is p for p in parents))


def h_library_wrap(P, which):
    """CMA-ES solutions / local-search iterates are stored with the objective value of exactly that genome."""
    from pyhms.core import problem as pp
    from pyhms.core.individual import Individual
    from pyhms.demes.cma_deme import CMADeme
    from pyhms.demes.local_deme import LocalDeme
    import pyhms.demes.local_deme as ld
    from ._fake import mk_deme, mk_tree

    prob, F, maximize, bounds = mk_problem(P, 2)
    cprob = pp.EvalCountingProblem(prob)
    if which == "cma":
        pop = mk_inds(P, cprob, 2, 2, "p", fitness="F", F=F, bounds=bounds)
        d = mk_deme("0", 1, cls=CMADeme, population=pop)
        d._problem = cprob
        d.generations = 2
        asked = []

        class ES:
            def tell(self, genomes, values):
                pass

            def ask(self):
                sol = [P.floats(P._n("ask"), (2,), finite=True) for _ in range(2)]
                for s in sol:
                    P.assume(in_box(s, bounds))
                asked.append(sol)
                return sol

            def stop(self):
                return False

        d._cma_es = ES()
        d._lsc = lambda deme: False
        t = mk_tree([[d]])
        t._gsc = lambda tr: False
        old = _snapshot(pop)
        d.run_metaepoch(t)
        gens = d._history[-1]
        P.oblige("cma.records_every_asked_generation", len(gens) == len(asked))
        for gen, sols in zip(gens, asked):
            for x, s in zip(gen, sols):
                P.oblige("cma.stored_genome_is_asked_solution", bool(same_genome(x.genome, s)))
                P.oblige("cma.fitness_is_objective_of_genome", _consistent(P, F, x))
        _frame(P, old, "cma")
        P.oblige("cma.history_append_only", d._history[0][0] is not None and len(d._history) == 2 and all(a[0] is b for a, b in zip(old, d._history[0][0])))
    else:
        seed = mk_inds(P, cprob, 1, 2, "s", fitness="F", F=F, bounds=bounds)[0]
        d = mk_deme("0", 1, cls=LocalDeme, population=[seed], seed=seed)
        d._problem = cprob
        d._method, d._n_evals, d._run_history, d._options, d._bounds = "L-BFGS-B", 0, [], {}, bounds
        iterates = []

        class Res:
            pass

        class SOPT:
            @staticmethod
            def minimize(fun, x0, method=None, bounds=None, callback=None, options=None):
                n = 0
                for k in range(2):
                    x = P.floats(P._n("probe"), (2,), finite=True)
                    P.assume(in_box(x, bounds))
                    v = fun(x)
                    n += 1
                    r = Res()
                    r.x, r.fun = x, v
                    iterates.append((x, v))
                    callback(r)
                r.nfev = n
                return r

        P.env.patch(ld, "sopt", SOPT)
        base = F.n_calls()
        d.run_metaepoch(None)
        P.oblige("local.nfev_accounting", d.n_evaluations == 2 and F.n_calls() - base == 2)
        stored = d._history[-1][0]
        P.oblige("local.records_every_iterate", len(stored) == 2)
        for x in stored:
            P.oblige("local.fitness_is_objective_of_genome", _consistent(P, F, x))


BOUNDS = {"quick": {"populations": "n 2-3 (DE: 4), d 1-2, one operator / engine step", "objective": "uninterpreted F"},
          "thorough": {"populations": "n <= 4, d <= 2"}}
OUTSIDE = ["whether scipy / cma hand out aliased work buffers (their documented contract: fresh arrays)", "objectives returning NaN",
           "objectives that distinguish -0.0 from +0.0", "SHADE's parameter adaptation (draw-dependent integer rounding)"]
ASSUMPTIONS = ["objective deterministic, never NaN, does not distinguish -0.0/+0.0 (uninterpreted F)",
               "apply_bounds replaced by its C17 contract inside composed pipelines",
               "symbolic*symbolic float products (crossover) abstracted to unconstrained values (over-approximation)"]


def cases(tier):
    R = dict(profile="fp", budget_s=1800, oblig_timeout_s=120, abstract_mul=True)
    cs = [dict(name="update.n2.d1", fn=h_update, params=dict(n=2, d=1), **R),
          dict(name="update.n2.d2", fn=h_update, params=dict(n=2, d=2), **R),
          dict(name="update.n3.d1", fn=h_update, params=dict(n=3, d=1), **R)]
    for op in ("gauss", "uniform", "xover", "tournament"):
        cs.append(dict(name=f"operator.{op}.n2", fn=h_operator, params=dict(op=op, n=2), weight=3, **R))
    for e in ("sea", "sea-xover", "ga", "sea-adaptive"):
        cs.append(dict(name=f"engine.{e}.n2", fn=h_engine, params=dict(engine=e, n=2), weight=10, **R))
    cs.append(dict(name="engine.de.n4", fn=h_engine, params=dict(engine="de", n=4), weight=30, **R))
    cs.append(dict(name="operator.de_crossover.n1", fn=h_de_crossover, params=dict(n=1, d=1), **dict(R, portfolio=True, separate=True, cores=2)))
    cs.append(dict(name="operator.de_crossover.n2.d2", fn=h_de_crossover, params=dict(n=2, d=2), **dict(R, portfolio=True, separate=True, cores=2)))
    if tier == "thorough":
        cs.append(dict(name="engine.de-dither.n4", fn=h_engine, params=dict(engine="de-dither", n=4), weight=30, **R))
        for e in ("sea", "ga"):
            cs.append(dict(name=f"engine.{e}.n3", fn=h_engine, params=dict(engine=e, n=3), weight=40, optional=True, **dict(R, budget_s=2400)))
    cs.append(dict(name="cache.close_genomes", fn=h_cache, params=dict(), **R))
    cs.append(dict(name="wrap.cma", fn=h_library_wrap, params=dict(which="cma"), **R))
    cs.append(dict(name="wrap.local", fn=h_library_wrap, params=dict(which="local"), **R))
    from .tstep import tree_cases
    cs += tree_cases(PROPERTY, tier, hibernation_values=(False,)) + run_cases(PROPERTY, tier, hib_values=(False,))
    from .selftest import cases as _selftest_cases
    cs += _selftest_cases(tier)  # shim validation on constants (adversarial table), DESIGN 5.3
    return cs
