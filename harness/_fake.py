"""Directly constructed tree / deme states for filter- and generator-level harnesses: real AbstractDeme / DemeTree
objects made with object.__new__ + attribute injection (no constructors, no initial evaluations)."""
import numpy as np


def _deme_class():
    from pyhms.demes.abstract_deme import AbstractDeme

    global _D
    try:
        return _D
    except NameError:
        pass

    class _D(AbstractDeme):
        def run_metaepoch(self, tree):
            raise AssertionError("not stepped in this harness")

    return _D


def mk_deme(id, level, active=True, population=None, seed=None, started_at=0, hibernating=False, cls=None):
    from pyhms.logging_ import get_logger

    D = cls or _deme_class()
    d = object.__new__(D)
    d._id = id
    d._level = level
    d._started_at = started_at
    d._sprout_seed = seed
    d._active = active
    d._centroid = None
    d._history = [[list(population)]] if population is not None else []
    d._children = []
    d._hibernating = hibernating
    d._logger = get_logger()
    d._config = None
    d._lsc = None
    d._problem = None
    d._bounds = None
    return d


def mk_tree(levels, metaepoch_count=1):
    from pyhms.tree import DemeTree

    t = object.__new__(DemeTree)
    t._levels = [list(l) for l in levels]
    t.metaepoch_count = metaepoch_count
    return t
