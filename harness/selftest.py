"""Shim validation (DESIGN 5.3): every intercepted numpy leaf operation is evaluated by the symbolic encoding on *constant* operands
(z3's simplifier folds the terms to values) and compared bit-for-bit with the real numpy result on an adversarial table: signed zeros,
subnormals, one-ulp neighbours, faces of the catalogue boxes, +-inf, NaN, ties.  A disagreement is an obligation that fails (and, being
about the shim and not about pyhms, shows up as a violation of the harness case 'selftest.*' in whatever check includes it)."""
import itertools
import math

import numpy as np

from symx import arr, core
from symx.core import SFloat, float_bits, is_sym

TABLE = [0.0, -0.0, 5e-324, -5e-324, 2.2250738585072014e-308, 1.0, -1.0, 0.1, -0.1, 0.2, 0.30000000000000004, 0.7, 1.9, 20.0, -20.0,
         np.nextafter(20.0, 30.0), np.nextafter(-0.1, -1.0), np.nextafter(0.2, 1.0), 1e300, -1e300, 3.0, 2.5, -2.5, 0.5, 1e-3, 1e3,
         math.inf, -math.inf, math.nan]
RANGES = [0.30000000000000004, 40.0, 1.0, 0.6, 999.999, 2e300]


def _sym(x):
    """a constant as a symbolic scalar (bit-backed), so that the shim code paths are taken"""
    c = core.ctx()
    if c.profile == "fp":
        import z3
        x = float(x)
        return SFloat(None, x == x, z3.BitVecVal(float_bits(x), 64))
    return core.lift_float(x)


def _val(v):
    """value of a folded symbolic scalar as float / bool / int"""
    import z3
    if isinstance(v, (bool, np.bool_)):
        return bool(v)
    if isinstance(v, core.SBool):
        e = z3.simplify(v.e)
        return True if z3.is_true(e) else False if z3.is_false(e) else None
    if isinstance(v, SFloat):
        if v._b is not None:
            b = z3.simplify(v._b)
            return core.bits_float(b.as_long()) if z3.is_bv_value(b) else None
        e = z3.simplify(z3.fpToIEEEBV(v.e))
        if z3.is_bv_value(e):
            return core.bits_float(e.as_long())
        isn = z3.simplify(z3.fpIsNaN(v.e))
        return math.nan if z3.is_true(isn) else None
    if isinstance(v, core.SInt):
        e = z3.simplify(v.e)
        return e.as_signed_long() if z3.is_bv_value(e) else None
    return v


def _same(a, b):
    if a is None:
        return False
    if isinstance(b, (bool, np.bool_)) or isinstance(a, bool):
        return bool(a) == bool(b)
    a, b = float(a), float(b)
    if a != a or b != b:
        return a != a and b != b
    return float_bits(a) == float_bits(b)


def h_selftest(P, group):
    if P.concrete:
        # replay mode runs on plain numpy: nothing of the shim is involved
        P.oblige("selftest.replay_noop", True)
        return
    bad = []
    finite = [x for x in TABLE if x == x and abs(x) != math.inf]
    if group == "arith":
        ops = [("add", np.add, lambda a, b: a + b), ("subtract", np.subtract, lambda a, b: a - b), ("multiply", np.multiply, lambda a, b: a * b),
               ("true_divide", np.true_divide, lambda a, b: a / b)]
        for (name, npf, sf), a, b in itertools.product(ops, TABLE, TABLE):
            with np.errstate(all="ignore"):
                want = npf(np.float64(a), np.float64(b))
            got = _val(sf(_sym(a), _sym(b)))
            if not _same(got, want):
                bad.append((name, a, b, got, float(want)))
        for a in TABLE:
            for name, npf, sf in (("negative", np.negative, lambda x: -x), ("absolute", np.absolute, abs)):
                got = _val(sf(_sym(a)))
                if not _same(got, npf(np.float64(a))):
                    bad.append((name, a, None, got, float(npf(np.float64(a)))))
    elif group == "compare":
        ops = [("less", np.less, lambda a, b: a < b), ("less_equal", np.less_equal, lambda a, b: a <= b), ("greater", np.greater, lambda a, b: a > b),
               ("greater_equal", np.greater_equal, lambda a, b: a >= b), ("equal", np.equal, lambda a, b: a == b),
               ("not_equal", np.not_equal, lambda a, b: a != b), ("minimum", np.minimum, arr._minimum), ("maximum", np.maximum, arr._maximum)]
        for (name, npf, sf), a, b in itertools.product(ops, TABLE, TABLE):
            with np.errstate(all="ignore"):
                want = npf(np.float64(a), np.float64(b))
            got = _val(sf(_sym(a), _sym(b)))
            if not _same(got, want):
                bad.append((name, a, b, got, want))
        for a in TABLE:
            for name, npf, sf in (("isnan", np.isnan, core.isnan), ("isinf", np.isinf, core.isinf), ("isfinite", np.isfinite, arr._isfinite)):
                if not _same(_val(sf(_sym(a))), npf(np.float64(a))):
                    bad.append((name, a, None, None, bool(npf(np.float64(a)))))
        for a, lo, hi in itertools.product(TABLE, [0.0, -0.1, -20.0, 1e-3], [1.0, 0.2, 20.0, 1e3]):
            got = _val(arr._clip(arr.sarr([_sym(a)]), lo, hi)[0])
            with np.errstate(all="ignore"):
                want = np.clip(np.array([a]), lo, hi)[0]
            if not _same(got, want):
                bad.append(("clip", a, (lo, hi), got, float(want)))
    elif group == "divmod":
        c = core.ctx()
        c.fmod_K = 6
        for a, b in itertools.product(finite, RANGES):
            if not abs(a) < 64 * b:
                continue
            for name, npf, op in (("remainder", np.remainder, "mod"), ("floor_divide", np.floor_divide, "floordiv")):
                try:
                    got = _val(c.farith(op, _sym(a), _sym(b)))
                except core.Infeasible:
                    continue
                want = npf(np.float64(a), np.float64(b))
                if not _same(got, want):
                    bad.append((name, a, b, got, float(want)))
    elif group == "select":
        rng = np.random.RandomState(7)
        for trial in range(40):
            n = 2 + trial % 4
            vals = [float(rng.choice([0.0, -0.0, 1.0, 1.0, 2.0, -3.5, 0.25, math.inf, -math.inf])) for _ in range(n)]
            sv = arr.sarr([_sym(v) for v in vals])
            for name, npf in (("argmin", np.argmin), ("argmax", np.argmax)):
                got = _val(npf(sv))
                if got != int(npf(np.array(vals))):
                    bad.append((name, vals, None, got, int(npf(np.array(vals)))))
            got = [int(i) for i in np.argsort(sv)]
            want = [int(i) for i in np.argsort(np.array(vals), kind="stable")]
            if got != want:
                bad.append(("argsort(stable ties)", vals, None, got, want))
            w = np.where(arr.sarr([_sym(v) > 0.5 for v in vals]), sv, -1.0)
            wantw = np.where(np.array(vals) > 0.5, np.array(vals), -1.0)
            if not all(_same(_val(x), y) for x, y in zip(w, wantw)):
                bad.append(("where", vals, None, None, None))
            if not _same(_val(np.any(sv > 1.5)), bool(np.any(np.array(vals) > 1.5))) or not _same(_val(np.all(sv > -10.0)), bool(np.all(np.array(vals) > -10.0))):
                bad.append(("any/all", vals, None, None, None))
        for a, b in itertools.product(finite, finite):
            got = _val(np.isclose(arr.sarr([_sym(a)]), arr.sarr([_sym(b)]))[0])
            if not _same(got, bool(np.isclose(a, b))):
                bad.append(("isclose", a, b, got, bool(np.isclose(a, b))))
    P.oblige(f"selftest.{group}.shim_agrees_with_numpy", len(bad) == 0)
    for item in bad[:5]:
        P.observe("mismatch", repr(item))
    P.shim_mismatches = bad


def cases(tier):
    return [dict(name=f"selftest.{g}", fn=h_selftest, params=dict(group=g), profile="fp", budget_s=600, validate_paths=0)
            for g in ("arith", "compare", "divmod", "select")]
