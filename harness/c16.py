"""C16 - problem wrappers are transparent; counter laws.

Real code executed: pyhms.core.problem.{FunctionProblem, ProblemWrapper, EvalCountingProblem, EvalCutoffProblem,
PrecisionCutoffProblem, StatsGatheringProblem}.evaluate/worse_than/bounds/maximize, get_function_problem,
pyhms.stop_conditions.gsc.SingularProblemPrecisionReached.  The objective is an uninterpreted function.
Oracle: a reference model of each wrapper written below (independent of the implementation).
"""
import itertools
import math

import numpy as np

from symx.core import land, lor, implies, lnot, ite, same_bits, iff, is_sym

PROPERTY = "C16"
KINDS = ["count", "cutoff", "precision", "stats"]


class RefLayer:
    """Reference semantics of one wrapper."""

    def __init__(self, kind, N=None, opt=None, eps=None):
        self.kind, self.N, self.opt, self.eps = kind, N, opt, eps
        self.n = 0
        self.hit = False
        self.eta = math.inf


def ref_evaluate(layers, i, x, F, maximize, count_f):
    """layers[i:] is the stack from layer i inwards; returns the value evaluate() must return."""
    if i == len(layers):
        count_f[0] += 1
        return F(x)
    L = layers[i]
    if L.kind == "cutoff":
        if bool(L.n >= L.N):  # forks; the implementation's own test of the same term follows the same branch
            return -math.inf if bool(maximize) else math.inf  # forks on the direction exactly like the implementation
    v = ref_evaluate(layers, i + 1, x, F, maximize, count_f)
    L.n = L.n + 1
    if L.kind == "precision":
        within = abs(v - L.opt) <= L.eps
        newly = land(within, lnot(L.hit))
        if is_sym(newly):
            newly = bool(newly)  # fork: the model follows the same case split
        if newly:
            L.eta = L.n
            L.hit = True
    return v


def h_stack(P, kinds, m):
    from pyhms.core import problem as pp
    from pyhms.stop_conditions.gsc import SingularProblemPrecisionReached

    maximize = P.bool("maximize")
    bounds = np.array([[-1.0, 1.0]])
    F = P.uf("F", 1)
    inner = pp.FunctionProblem(F, bounds, maximize)
    stack = inner
    layers = []
    objs = []
    for j, kind in reversed(list(enumerate(kinds))):
        if kind == "count":
            stack = pp.EvalCountingProblem(stack)
            L = RefLayer("count")
        elif kind == "cutoff":
            N = P.int(f"N{j}", 0, m + 1)
            stack = pp.EvalCutoffProblem(stack, N)
            L = RefLayer("cutoff", N=N)
        elif kind == "precision":
            opt = P.float(f"opt{j}", finite=True)
            eps = P.float(f"eps{j}", finite=True, lo=0.0)
            stack = pp.PrecisionCutoffProblem(stack, opt, eps)
            L = RefLayer("precision", opt=opt, eps=eps)
        else:
            stack = pp.StatsGatheringProblem(stack)
            L = RefLayer("stats")
        layers.insert(0, L)
        objs.insert(0, stack)
    count_f = [0]
    for c in range(m):
        x = P.floats(f"x{c}", (1,), finite=True)
        got = stack.evaluate(x)
        want = ref_evaluate(layers, 0, x, _pure(F, P), maximize, count_f)
        P.observe(f"ret{c}", got)
        P.oblige("evaluate.value", same_bits(got, want))
        P.oblige("objective.calls", F.n_calls() - _pure_calls(P) == count_f[0])
        for j, (o, L) in enumerate(zip(objs, layers)):
            P.oblige(f"{L.kind}.n_evaluations", o.n_evaluations == L.n)
            if L.kind == "precision":
                P.oblige("precision.hit_sticky", iff(o.hit_precision, L.hit))
                P.oblige("precision.ETA", o.ETA == L.eta if not (isinstance(L.eta, float) and math.isinf(L.eta)) else
                         (not is_sym(o.ETA) and o.ETA == math.inf))
                gsc = SingularProblemPrecisionReached(o)
                P.oblige("gsc.precision_reached", iff(gsc(None), L.hit))
            if L.kind == "stats":
                P.oblige("stats.durations", len(o.durations) == L.n)
    # transparency of the static interface
    P.oblige("bounds.innermost", stack.bounds is bounds)
    P.oblige("maximize.innermost", iff(stack.maximize, maximize))
    a = P.float("wa", nn=True)
    b = P.float("wb", nn=True)
    P.oblige("worse_than.innermost", iff(stack.worse_than(a, b), inner.worse_than(a, b)))
    P.oblige("worse_than.direction", iff(stack.worse_than(a, b), ite(maximize, a < b, a > b) if is_sym(maximize) else (a < b if maximize else a > b)))
    P.oblige("unwrap.innermost", pp.get_function_problem(stack) is inner)


def h_delegation(P, kinds):
    """Whatever the innermost problem is, the stack's comparison / bounds / direction ARE the innermost problem's: a custom Problem
    whose worse_than is an arbitrary (uninterpreted) relation must be consulted exactly once per query and its answer returned."""
    from pyhms.core import problem as pp

    calls = []
    answers = []

    class Custom(pp.Problem):
        def evaluate(self, genome, *a, **k):
            return 0.0

        def worse_than(self, a, b):
            v = P.bool(P._n("inner_worse_than"))
            calls.append((a, b))
            answers.append(v)
            return v

        @property
        def bounds(self):
            return BOUNDS_OBJ

        @property
        def maximize(self):
            return MAX

    BOUNDS_OBJ = np.array([[0.0, 1.0]])
    MAX = P.bool("maximize")
    inner = Custom()
    stack = inner
    for kind in reversed(kinds):
        stack = {"count": lambda s: pp.EvalCountingProblem(s), "cutoff": lambda s: pp.EvalCutoffProblem(s, 3),
                 "precision": lambda s: pp.PrecisionCutoffProblem(s, 0.0, 0.5), "stats": lambda s: pp.StatsGatheringProblem(s)}[kind](stack)
    a = P.float("a", nn=False)
    b = P.float("b", nn=False)
    got = stack.worse_than(a, b)
    P.oblige("delegation.worse_than_is_innermost_answer", len(calls) == 1 and calls[0][0] is a and calls[0][1] is b and got is answers[0])
    P.oblige("delegation.bounds_and_direction", stack.bounds is BOUNDS_OBJ and stack.maximize is MAX)


def h_nan_order(P, wrappers):
    """FunctionProblem's NaN rule (a NaN fitness is worse than any number) survives any number of wrappers."""
    from pyhms.core import problem as pp

    maximize = P.bool("maximize")
    stack = inner = pp.FunctionProblem(lambda x: 0.0, np.array([[0.0, 1.0]]), maximize)
    for _ in range(wrappers):
        stack = pp.EvalCountingProblem(stack)
    a = P.float("a", nn=False)
    b = P.float("b", nn=False)
    from symx.core import isnan as sisnan
    P.assume(lnot(land(sisnan(a), sisnan(b))), "not both NaN (that case is a coin flip in the library)")
    got = bool(stack.worse_than(a, b))
    want = bool(inner.worse_than(a, b))
    P.oblige("nan_order.same_as_innermost", got == want)
    if bool(sisnan(a)):
        P.oblige("nan_order.nan_is_worse_than_any_number", got is True)
    if bool(sisnan(b)):
        P.oblige("nan_order.number_is_not_worse_than_nan", got is False)


_PURE = {}


def _pure(F, P):
    """The model consults the same uninterpreted F; its consultations are not objective invocations by pyhms."""
    def G(x):
        P._pure_calls = getattr(P, "_pure_calls", 0) + 1
        return F(x)
    return G


def _pure_calls(P):
    return getattr(P, "_pure_calls", 0)


BOUNDS = {"quick": {"stack_depth": "<= 2 (all 20 stacks) + 12 depth-3 stacks", "calls": 4, "cutoff_N": "symbolic 0..calls+1",
                    "optimum/precision": "symbolic float64, precision >= 0 finite"},
          "thorough": {"stack_depth": "<= 3 (all 84 stacks) + 40 depth-4 stacks", "calls": 5}}
OUTSIDE = ["depth-4 stacks outside the listed sample", "more than 5 calls", "objectives returning NaN", "non-finite precision"]
ASSUMPTIONS = ["profile 'real': fitness / optimum / precision are mathematical reals (the wrappers only pass values through and compare |f - opt| <= eps; rounding of that one subtraction is outside the claim)", "objective deterministic, never NaN, does not distinguish -0.0 from +0.0 (uninterpreted function F)"]


def cases(tier):
    cs = []
    m = 4 if tier == "quick" else 5
    stacks = []
    maxd = 2 if tier == "quick" else 3
    for d in range(1, maxd + 1):
        stacks += list(itertools.product(KINDS, repeat=d))
    extra_d = maxd + 1
    extra = [s for s in itertools.product(KINDS, repeat=extra_d)]
    # a deterministic spread of deeper stacks
    step = max(1, len(extra) // (12 if tier == "quick" else 40))
    stacks += extra[::step]
    for s in stacks:
        mm = m if s.count("precision") < 3 else m - 1  # three precision layers fork 3x per call: one call less keeps the case in budget
        cs.append(dict(name="stack." + "/".join(s), fn=h_stack, params=dict(kinds=list(s), m=mm), profile="real", oblig_timeout_s=120,
                       budget_s=2400, max_paths=400000, weight=len(s) + 3 * s.count("precision")))
    for s in (["count"], ["cutoff", "stats"], ["precision", "count", "cutoff"], ["stats", "precision"]):
        cs.append(dict(name="delegation." + "/".join(s), fn=h_delegation, params=dict(kinds=list(s)), profile="fp", budget_s=600))
    for wr in (1, 3):
        cs.append(dict(name=f"nan_order.w{wr}", fn=h_nan_order, params=dict(wrappers=wr), profile="fp", budget_s=600))
    # bit-precise float64 for the stacks without a precision layer: the objective may return +-inf, -0.0, ...
    for s in itertools.product(["count", "cutoff", "stats"], repeat=2):
        cs.append(dict(name="stack.fp." + "/".join(s), fn=h_stack, params=dict(kinds=list(s), m=3), profile="fp", oblig_timeout_s=120, budget_s=900, weight=2))
    for s in (["count"], ["cutoff"], ["stats"]):
        cs.append(dict(name="stack.fp." + "/".join(s), fn=h_stack, params=dict(kinds=list(s), m=4), profile="fp", oblig_timeout_s=120, budget_s=900))
    return cs
