"""Case runner: explores every case of a property's harness module in a process pool, applies the known-findings
file, writes the evidence file and prints the interface lines."""
from __future__ import annotations

import fnmatch
import importlib
import json
import multiprocessing as mp
import os
import re
import sys
import time
import traceback

VERIF = os.path.dirname(os.path.dirname(os.path.abspath(__file__)))
REPO = os.environ.get("PYHMS_REPO", "/repo")

EXIT_OK, EXIT_VIOLATION, EXIT_INCONCLUSIVE = 0, 1, 3


def _worker(modname, case_index, tier, conn):
    try:
        sys.dont_write_bytecode = True
        from . import engine

        mod = importlib.import_module(modname)
        case = mod.cases(tier)[case_index]
        kw = {k: case[k] for k in ("profile", "budget_s", "max_paths", "oblig_timeout_s", "portfolio", "validate_paths", "fmod_K",
                                   "separate", "fmod_fork", "argsort_mode", "incremental_discharge", "abstract_mul", "decide_timeout_ms") if k in case}
        res = engine.explore(case["fn"], case["params"], case_name=case["name"], **kw)
        res["fn"] = case["fn"].__name__
        res["fn_module"] = case["fn"].__module__
        conn.send(json.dumps(res, default=_default))
    except BaseException as e:  # noqa
        conn.send(json.dumps({"case": f"#{case_index}", "crash": traceback.format_exc()}))
    finally:
        conn.close()


def _default(o):
    if isinstance(o, set):
        return sorted(o)
    return repr(o)


def run_cases(modname, tier, jobs):
    mod = importlib.import_module(modname)
    cases = mod.cases(tier)
    results = [None] * len(cases)
    ctx = mp.get_context("fork")
    pending = list(range(len(cases)))
    # longest first
    pending.sort(key=lambda i: -cases[i].get("weight", 1))
    running = {}
    while pending or running:
        while pending and sum(cases[i].get("cores", 1) for i in running) < jobs:
            i = pending.pop(0)
            pc, cc = ctx.Pipe(duplex=False)
            p = ctx.Process(target=_worker, args=(modname, i, tier, cc))
            p.start()
            cc.close()
            running[i] = (p, pc, time.time())
        done = []
        for i, (p, pc, t0) in running.items():
            hard = cases[i].get("budget_s", 600.0) * 1.5 + cases[i].get("oblig_timeout_s", 60.0) * 2 + 60
            if pc.poll(0.01):
                try:
                    results[i] = json.loads(pc.recv())
                except EOFError:
                    results[i] = {"case": cases[i]["name"], "crash": "worker died without a result"}
                p.join(10)
                done.append(i)
            elif not p.is_alive():
                results[i] = {"case": cases[i]["name"], "crash": f"worker exited with code {p.exitcode}"}
                done.append(i)
            elif time.time() - t0 > hard:
                p.terminate()
                p.join(5)
                results[i] = {"case": cases[i]["name"], "inconclusive": [{"reason": f"hard timeout {hard:.0f}s"}], "paths": 0,
                              "obligations": 0, "discharged": 0, "violations": [], "errors": [], "timed_out": True}
                done.append(i)
        for i in done:
            running.pop(i)
        if not done:
            time.sleep(0.05)
    return cases, results


def load_known(prop):
    path = os.path.join(VERIF, "known_findings.json")
    if not os.path.exists(path):
        return []
    with open(path) as f:
        data = json.load(f)
    return [e for e in data.get("findings", []) if e.get("property") == prop]


def match_known(known, case_name, obligation):
    for e in known:
        if e.get("status") != "known":
            continue
        if fnmatch.fnmatch(obligation, e["obligation"]) and fnmatch.fnmatch(case_name, e.get("case", "*")):
            return e
    return None


def main_property(prop, tier="quick", seed=0, jobs=None):
    t0 = time.time()
    sys.path.insert(0, VERIF)
    sys.path.insert(0, REPO)
    modname = f"harness.{prop.lower()}"
    jobs = jobs or int(os.environ.get("VERIF_JOBS", os.cpu_count() or 4))
    from . import engine

    cases, results = run_cases(modname, tier, jobs)
    known = load_known(prop)
    ev = {
        "paths": 0, "decisions": 0, "obligations": 0, "discharged": 0, "queries": 0, "solver_s": 0.0, "validated": 0,
        "cut_paths": 0, "infeasible_paths": 0, "undecided_soft": 0,
    }
    functions = {}
    stubs, assumptions, cuts = set(), set(), {}
    violations, known_hits, problems, soft_notes = [], {}, [], []
    samples = []
    per_case = []
    wins = {}
    for case, r in zip(cases, results):
        name = case["name"]
        if r is None or "crash" in r:
            problems.append(f"{name}: harness crashed: {(r or {}).get('crash', 'no result')[-1500:]}")
            continue
        soft = case.get("soft", [])
        optional = case.get("optional", False)
        for k_ev, k_r in (("paths", "paths"), ("decisions", "decisions"), ("obligations", "obligations"), ("discharged", "discharged"),
                          ("queries", "queries"), ("solver_s", "solver_s"), ("validated", "validated_paths"), ("cut_paths", "cut_paths"),
                          ("infeasible_paths", "infeasible_paths")):
            ev[k_ev] += r.get(k_r, 0) or 0
        for f in r.get("functions_encoded", []):
            functions[f["function"]] = f["sha256"]
        stubs |= set(r.get("stubs", []))
        assumptions |= set(r.get("assumptions", []))
        for k, v in r.get("cuts", {}).items():
            cuts[k] = cuts.get(k, 0) + v
        for k, v in r.get("solver_wins", {}).items():
            wins[k] = wins.get(k, 0) + v
        for s in r.get("samples", [])[:1]:
            if len(samples) < 12:
                samples.append({"case": name, **s})
        for inc in r.get("inconclusive", []):
            obls = inc.get("obligations")
            if obls and all(any(fnmatch.fnmatch(o, pat) for pat in soft) for o in obls):
                ev["undecided_soft"] += len(obls)
                soft_notes.append(f"{name}: {obls} undecided ({inc['reason']})")
            elif optional:
                soft_notes.append(f"{name}: optional case inconclusive ({inc.get('reason')})")
            else:
                problems.append(f"{name}: INCONCLUSIVE {json.dumps(inc)[:600]}")
        for e in r.get("errors", []):
            problems.append(f"{name}: {e.get('kind')} {json.dumps(e)[:800]}")
        for vf in r.get("validation_failures", []):
            problems.append(f"{name}: shim/vacuity validation failed: {json.dumps(vf)[:800]}")
        if r.get("paths", 0) and not r.get("obligations", 0) and not optional and not case.get("vacuous_ok"):
            problems.append(f"{name}: VACUOUS (no obligation reached on {r.get('paths')} paths)")
        for v in r.get("violations", []):
            k = match_known(known, name, v["obligation"])
            if k is not None:
                known_hits.setdefault((k["obligation"], k.get("case", "*"), k["what"]), []).append(name)
                continue
            rp = os.path.join(VERIF, "replays", prop, re.sub(r"[^A-Za-z0-9_.-]+", "_", f"{name}__{v['obligation']}") + ".json")
            engine.write_replay(rp, prop, r.get("fn_module", modname), r["fn"], v)
            violations.append((name, v["obligation"], rp))
        per_case.append({"case": name, "paths": r.get("paths"), "obligations": r.get("obligations"), "discharged": r.get("discharged"),
                         "violations": [v["obligation"] for v in r.get("violations", [])], "wall_s": r.get("wall_s"),
                         "bounds": {k: case[k] for k in ("fmod_K",) if k in case}, "params": _short(case["params"])})
    for (obl, cs, what), names in known_hits.items():
        print(f"KNOWN-FINDING: property={prop} {obl} {what} (cases: {len(names)})")
    for name, obl, rp in violations:
        print(f"VIOLATION property={prop} replay={rp}")
        print(f"  case={name} obligation={obl}")
    for p in problems:
        print(f"HARNESS-PROBLEM property={prop} {p}")
    wall = time.time() - t0
    mod = importlib.import_module(modname)
    evidence = {
        "property_id": prop,
        "tier": tier,
        "seed": seed,
        "level": "model_checking",
        "coverage": {
            "states": max(ev["paths"], 0),
            "transitions": max(ev["decisions"], ev["paths"]),
            "traces_validated_against_impl": ev["validated"],
            "samples": samples or [{"note": "no path produced obligations"}],
            "obligations": ev["obligations"],
            "discharged": ev["discharged"],
            "undecided_soft_obligations": ev["undecided_soft"],
            "queries": ev["queries"],
            "solver_s": round(ev["solver_s"], 2),
            "solver_wins": wins,
            "cases": per_case,
            "cut_paths": ev["cut_paths"],
            "cuts": cuts,
            "infeasible_paths": ev["infeasible_paths"],
            "functions_encoded": [{"function": k, "sha256": v} for k, v in sorted(functions.items())],
            "stubs": sorted(stubs),
            "bounds": getattr(mod, "BOUNDS", {}).get(tier, getattr(mod, "BOUNDS", {})),
            "outside_claim": getattr(mod, "OUTSIDE", []),
            "soft_notes": soft_notes[:40],
            "known_findings_reported": [k[0] for k in known_hits],
            "explanation": "states = explored execution paths of the real pyhms functions under symbolic inputs; transitions = "
                           "branch decisions taken by the path explorer; every obligation is a z3/cvc5 query "
                           "path-condition AND NOT obligation; traces_validated_against_impl = path models replayed on the real code "
                           "with plain numpy and compared (obligations reached, observables bit-equal).",
        },
        "assumptions": sorted(assumptions) + list(getattr(mod, "ASSUMPTIONS", [])),
        "wall_s": round(wall, 2),
        "violations": len(violations),
    }
    os.makedirs(os.path.join(VERIF, "evidence"), exist_ok=True)
    with open(os.path.join(VERIF, "evidence", f"{prop}.json"), "w") as f:
        json.dump(evidence, f, indent=1, default=_default)
    print(f"{prop} {tier}: cases={len(cases)} paths={ev['paths']} obligations={ev['obligations']} discharged={ev['discharged']} "
          f"undecided_soft={ev['undecided_soft']} queries={ev['queries']} solver_s={ev['solver_s']:.1f} validated={ev['validated']} "
          f"violations={len(violations)} known={len(known_hits)} problems={len(problems)} wall={wall:.1f}s")
    if violations:
        return EXIT_VIOLATION
    if problems:
        return EXIT_INCONCLUSIVE
    return EXIT_OK


def _short(p):
    s = json.dumps(p, default=repr)
    return p if len(s) < 300 else s[:300] + "..."


def main_replay(path):
    sys.path.insert(0, VERIF)
    sys.path.insert(0, REPO)
    sys.dont_write_bytecode = True
    from . import engine

    with open(path) as f:
        rp = json.load(f)
    mod = importlib.import_module(rp["module"])
    fn = getattr(mod, rp["function"])
    rep = engine.run_replay(fn, rp["params"], rp["values"], rp["uf"])
    print(f"replay of {rp['property']} {rp['function']} params={json.dumps(rp['params'])[:300]}")
    print(f"values: {json.dumps(rp['values'])[:2000]}")
    for n, v in rep["observations"]:
        print(f"  observed {n} = {v!r}")
    bad = [n for n, vs in rep["verdicts"].items() if not all(vs)]
    for n, vs in rep["verdicts"].items():
        print(f"  obligation {n}: {'HOLDS' if all(vs) else 'FAILS'}")
    if rep["status"] == "mismatch":
        print(f"replay mismatch: {rep['error']}")
        return EXIT_INCONCLUSIVE
    if bad:
        print(f"VIOLATION property={rp['property']} replay={path}")
        return EXIT_VIOLATION
    print("no obligation fails on this input with the current /repo")
    return EXIT_OK
