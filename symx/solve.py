"""Obligation discharge: fresh (non-incremental) in-process z3, or a portfolio race of solver binaries on the
SMT-LIB2 dump of the query.  Models are read back as exact bit patterns."""
from __future__ import annotations

import math
import os
import re
import shutil
import subprocess
import tempfile
import time
from fractions import Fraction

import numpy as np
import z3

from . import core
from .core import bits_float, float_bits

PORTFOLIO = [
    ("z3-4.8.12", ["/usr/bin/z3", "-smt2"]),
    ("cvc5-1.0.3", ["/usr/bin/cvc5", "--produce-models", "--fp-exp"]),
    ("z3-5.1", ["z3-new", "-smt2"]),
]


# ---------------------------------------------------------------------------------------------
# model access
# ---------------------------------------------------------------------------------------------


class ModelZ3:
    def __init__(self, m):
        self.m = m

    def value(self, kind, t):
        m = self.m
        if kind == "float":
            v = m.eval(z3.fpToIEEEBV(t), model_completion=True)
            v = z3.simplify(v)
            if z3.is_bv_value(v):
                return format(v.as_long(), "x")
            # NaN: fpToIEEEBV is unspecified on NaN
            isn = m.eval(z3.fpIsNaN(t), model_completion=True)
            if z3.is_true(isn):
                return format(float_bits(math.nan), "x")
            raise core.EncodingMismatch(f"cannot read model value of {t}")
        if kind == "real":
            v = m.eval(t, model_completion=True)
            return format(float_bits(_real_to_float(v)), "x")
        if kind == "fbits":
            v = m.eval(t, model_completion=True)
            return format(v.as_long(), "x")
        if kind == "int":
            v = m.eval(t, model_completion=True)
            if z3.is_bv_value(v):
                return v.as_signed_long()
            return v.as_long()
        if kind == "bool":
            return z3.is_true(m.eval(t, model_completion=True))
        raise ValueError(kind)

    def truth(self, e):
        v = self.m.eval(e, model_completion=True)
        if z3.is_true(v):
            return True
        if z3.is_false(v):
            return False
        return None


def _real_to_float(v):
    if z3.is_rational_value(v):
        return float(Fraction(v.numerator_as_long(), v.denominator_as_long()))
    if z3.is_algebraic_value(v):
        a = v.approx(30)
        return float(Fraction(a.numerator_as_long(), a.denominator_as_long()))
    raise core.EncodingMismatch(f"cannot read real model value {v}")


class ModelExt:
    """Model of an external solver: values requested with (get-value ...) keyed by the term's s-expression."""

    def __init__(self, table):
        self.table = table

    def value(self, kind, t):
        s = self.table[_key(t)]
        if kind == "float":
            return format(_parse_fp(s), "x")
        if kind == "fbits":
            return format(_bv(s)[0], "x")
        if kind == "int":
            return _parse_int(s)
        if kind == "bool":
            return s == "true"
        if kind == "real":
            return format(float_bits(float(_parse_real(s))), "x")
        raise ValueError(kind)

    def truth(self, e):
        s = self.table.get(_key(e))
        if s is None:
            return None
        return s == "true"


def _key(t):
    return t.get_id()


def eval_const(model, kind, t):
    return model.value(kind, t)


# ---------------------------------------------------------------------------------------------
# s-expression parsing of (get-value ...) answers
# ---------------------------------------------------------------------------------------------


def _tokenise(s):
    return re.findall(r"\(|\)|[^\s()]+", s)


def _parse_sexprs(tokens):
    stack = [[]]
    for t in tokens:
        if t == "(":
            stack.append([])
        elif t == ")":
            x = stack.pop()
            stack[-1].append(x)
        else:
            stack[-1].append(t)
    return stack[0]


def _bv(tok):
    if tok.startswith("#b"):
        return int(tok[2:], 2), len(tok) - 2
    if tok.startswith("#x"):
        return int(tok[2:], 16), 4 * (len(tok) - 2)
    raise ValueError(tok)


def _parse_fp(s):
    if isinstance(s, list):
        if s[0] == "fp":
            sg, _ = _bv(s[1])
            ex, _ = _bv(s[2])
            mt, _ = _bv(s[3])
            return (sg << 63) | (ex << 52) | mt
        if s[0] == "_":
            k = s[1]
            if k == "+zero":
                return 0
            if k == "-zero":
                return 1 << 63
            if k == "+oo":
                return 0x7FF0000000000000
            if k == "-oo":
                return 0xFFF0000000000000
            if k == "NaN":
                return float_bits(math.nan)
    raise ValueError(f"fp value {s}")


def _parse_int(s):
    if isinstance(s, list):
        if s[0] == "-":
            return -_parse_int(s[1])
        if s[0] == "_" and s[1].startswith("bv"):
            v, w = int(s[1][2:]), int(s[2])
            return v - (1 << w) if v >> (w - 1) else v
        raise ValueError(s)
    if s.startswith("#"):
        v, w = _bv(s)
        return v - (1 << w) if v >> (w - 1) else v
    return int(s)


def _parse_real(s):
    if isinstance(s, list):
        if s[0] == "-" and len(s) == 2:
            return -_parse_real(s[1])
        if s[0] == "/":
            return _parse_real(s[1]) / _parse_real(s[2])
        raise ValueError(s)
    return Fraction(s)


# ---------------------------------------------------------------------------------------------
# check
# ---------------------------------------------------------------------------------------------


def _values_from_model(model, P):
    from .engine import model_values

    return model_values(P, model)


def abstract_divisions(formulas, unit_terms=None):
    """Cut-point abstraction: every fp.div sub-term is replaced by a fresh unconstrained float64 constant (the same constant
    for the same term); every product u*y with u known to lie in [0,1] (a rand() draw or 1 - draw) is replaced by a fresh p
    constrained only by the facts  not NaN(y) => not NaN(p)  and  |p| <= |y|  (rounding is monotone and |y| is representable,
    so |fl(u*y)| <= |y|).  The abstracted conjunction is weaker than the original, so 'unsat' carries over; 'sat' does not."""
    seen, divs = set(), {}
    unit_terms = unit_terms or {}
    muls = {}

    def walk(t):
        stack = [t]
        while stack:
            x = stack.pop()
            i = x.get_id()
            if i in seen:
                continue
            seen.add(i)
            if z3.is_app(x):
                if x.decl().kind() == z3.Z3_OP_FPA_DIV:
                    divs[i] = x
                elif x.decl().kind() == z3.Z3_OP_FPA_MUL and unit_terms:
                    _, p, q = x.children()
                    if p.get_id() in unit_terms:
                        muls[i] = (x, q)
                    elif q.get_id() in unit_terms:
                        muls[i] = (x, p)
                stack.extend(x.children())

    for f in formulas:
        walk(f)
    if not divs and not muls:
        return None
    # innermost-first is not needed: substitute replaces the outermost occurrence, which removes nested ones with it
    pairs = [(t, z3.FP(f"absdiv!{i}", core.F64)) for i, t in divs.items()]
    facts = []
    for i, (t, other) in muls.items():
        p = z3.FP(f"absmul!{i}", core.F64)
        pairs.append((t, p))
        facts.append(z3.Implies(z3.Not(z3.fpIsNaN(other)), z3.And(z3.Not(z3.fpIsNaN(p)), z3.fpLEQ(z3.fpAbs(p), z3.fpAbs(other)))))
    out = [z3.substitute(f, *pairs) for f in formulas]
    # the facts talk about the (possibly also abstracted) other operands
    out += [z3.substitute(f, *pairs) for f in facts]
    return out


def check(formulas, timeout_s, portfolio, P, want_z3_model=False):
    """Satisfiability of the conjunction.  Returns (status, model, info); model = (values, uf tables[, z3 model])."""
    t0 = time.time()
    if portfolio and not want_z3_model:
        # cheap first attempt in-process: most obligations of a mostly-comparison harness are decided in milliseconds
        st, model, info = check(formulas, min(5.0, timeout_s), False, P)
        if st in ("sat", "unsat"):
            return st, model, info
        t0 = time.time()
    if portfolio and not want_z3_model and getattr(P.ctx, "abstract_div", True):
        af = abstract_divisions(formulas, getattr(P.ctx, "unit_terms", None))
        if af is not None:
            st, _, info = _portfolio(af, min(timeout_s, max(20.0, timeout_s / 3)), P, t0, want_model=False)
            if st == "unsat":
                info["solver"] = "abs-div:" + info["solver"]
                return st, None, info
            t0 = time.time()
    if not portfolio or want_z3_model:
        s = z3.Solver()
        s.set("timeout", int(timeout_s * 1000))
        s.add(*formulas)
        r = s.check()
        info = {"solver": "z3-5.1-inproc", "time": time.time() - t0}
        if r == z3.unsat:
            return "unsat", None, info
        if r == z3.sat:
            prefs = getattr(P.ctx, "preferences", [])
            if prefs:
                # prefer a model in which the shim's demonic choices take their usual concrete value (stable tie order)
                s.push()
                s.add(*prefs)
                if s.check() != z3.sat:
                    s.pop()
                    s.check()
            zm = s.model()
            m = ModelZ3(zm)
            vals, tables = _values_from_model(m, P)
            P._last_model = m
            return "sat", ((vals, tables, zm) if want_z3_model else (vals, tables)), info
        if not portfolio:
            return "unknown", None, info
    return _portfolio(formulas, timeout_s, P, t0)


def check_incremental(solver, neg, timeout_s, P, restore_timeout_ms):
    t0 = time.time()
    solver.push()
    try:
        solver.set("timeout", int(timeout_s * 1000))
        solver.add(neg)
        r = solver.check()
        info = {"solver": "z3-5.1-incremental", "time": time.time() - t0}
        if r == z3.unsat:
            return "unsat", None, info
        if r == z3.sat:
            prefs = getattr(P.ctx, "preferences", [])
            if prefs:
                solver.push()
                solver.add(*prefs)
                ok = solver.check() == z3.sat
                if ok:
                    zm = solver.model()
                solver.pop()
                if not ok:
                    solver.check()
                    zm = solver.model()
            else:
                zm = solver.model()
            m = ModelZ3(zm)
            vals, tables = _values_from_model(m, P)
            P._last_model = m
            return "sat", (vals, tables), info
        return "unknown", None, info
    finally:
        solver.pop()
        solver.set("timeout", restore_timeout_ms)


def failing_obligations(pending, model, P):
    m = getattr(P, "_last_model", None)
    if m is None:
        return []
    out = []
    for n, e in pending:
        if m.truth(e) is False:
            out.append(n)
    return out


def to_smt2(formulas, terms, logic=None):
    s = z3.Solver()
    s.add(*formulas)
    text = s.to_smt2()
    # z3 appends (check-sat); cut it to add get-value
    text = text.replace("(check-sat)\n", "")
    text = re.sub(r"\(set-info :status \w+\)\n", "", text)
    head = "(set-option :produce-models true)\n"
    if logic:
        head += f"(set-logic {logic})\n"
    body = text + "(check-sat)\n"
    for t in terms:
        body += f"(get-value ({t.sexpr()}))\n"
    return head + body


def _portfolio(formulas, timeout_s, P, t0, want_model=True):
    terms = []
    kinds = []
    for name, (kind, c) in P.decls.items():
        terms.append(c)
    for name, calls in P.uf_calls.items():
        for ts, r in calls:
            terms.extend(ts)
            terms.append(r)
    obl_terms = getattr(P, "_obl_terms", [])
    terms.extend(obl_terms)
    # dedupe by id
    seen = set()
    uterms = []
    for t in terms:
        if t.get_id() not in seen:
            seen.add(t.get_id())
            uterms.append(t)
    logic = "QF_UFBVFP" if P.ctx.profile == "fp" else None
    if not want_model:
        uterms = []
    text = to_smt2(formulas, uterms, "ALL")
    d = tempfile.mkdtemp(prefix="symxq_", dir=os.environ.get("SYMX_TMP", "/dev/shm" if os.path.isdir("/dev/shm") else None))
    path = os.path.join(d, "q.smt2")
    with open(path, "w") as f:
        f.write(text)
    procs = []
    try:
        for name, cmd in PORTFOLIO:
            if shutil.which(cmd[0]) is None:
                continue
            extra = []
            if name.startswith("z3"):
                extra = [f"-T:{int(timeout_s) + 1}"]
            else:
                extra = [f"--tlimit={int(timeout_s * 1000)}"]
            out = open(os.path.join(d, name + ".out"), "w")
            p = subprocess.Popen(cmd + extra + [path], stdout=out, stderr=subprocess.DEVNULL)
            procs.append((name, p, out))
        deadline = t0 + timeout_s + 2
        result = None
        live = list(procs)
        while live and time.time() < deadline and result is None:
            for item in list(live):
                name, p, out = item
                if p.poll() is None:
                    continue
                live.remove(item)
                out.close()
                txt = open(os.path.join(d, name + ".out")).read()
                lines = txt.strip().split("\n") if txt.strip() else [""]
                first = lines[0].strip()
                if first not in ("sat", "unsat"):
                    # an (error ...) or warning before the answer: this solver's answer is not trusted
                    continue
                if first == "sat" and "(error" in txt:
                    continue
                if first == "unsat":
                    result = ("unsat", None, {"solver": name, "time": time.time() - t0})
                    break
                if first == "sat":
                    try:
                        table = _read_values(txt.split("\n", 1)[1] if "\n" in txt else "", uterms)
                        m = ModelExt(table)
                        vals, tables = _values_from_model(m, P)
                        P._last_model = m
                        result = ("sat", (vals, tables), {"solver": name, "time": time.time() - t0})
                        break
                    except Exception as e:  # unreadable model: ignore this solver's answer
                        continue
            if result is None:
                time.sleep(0.02)
        if result is None:
            result = ("unknown", None, {"solver": "portfolio-timeout", "time": time.time() - t0})
        return result
    finally:
        for name, p, out in procs:
            if p.poll() is None:
                p.kill()
            try:
                p.wait(timeout=5)
            except Exception:
                pass
            try:
                out.close()
            except Exception:
                pass
        shutil.rmtree(d, ignore_errors=True)


def _read_values(txt, uterms):
    sx = _parse_sexprs(_tokenise(txt))
    table = {}
    # each answer is ((term value)); they come in the order requested
    answers = [a[0] for a in sx if isinstance(a, list) and a and isinstance(a[0], list)]
    if len(answers) != len(uterms):
        raise ValueError(f"expected {len(uterms)} values, got {len(answers)}")
    for t, a in zip(uterms, answers):
        table[t.get_id()] = a[1]
    return table


# ---------------------------------------------------------------------------------------------
# comparing symbolic observables (evaluated in a model) with the real code's concrete results
# ---------------------------------------------------------------------------------------------


def eval_value(zm, v, profile):
    m = ModelZ3(zm)
    if isinstance(v, core.SFloat):
        if profile == "fp" and v._b is not None:
            return ("f", m.value("fbits", v._b))
        return ("f", m.value("float" if profile == "fp" else "real", v.e))
    if isinstance(v, core.SInt):
        return ("i", m.value("int", v.e))
    if isinstance(v, core.SBool):
        return ("b", m.value("bool", v.e))
    if isinstance(v, np.ndarray):
        return [eval_value(zm, x, profile) for x in v.flat]
    if isinstance(v, (list, tuple)):
        return [eval_value(zm, x, profile) for x in v]
    return concrete_value(v)


def concrete_value(v):
    if isinstance(v, (bool, np.bool_)):
        return ("b", bool(v))
    if isinstance(v, (int, np.integer)):
        return ("i", int(v))
    if isinstance(v, (float, np.floating)):
        return ("f", format(float_bits(float(v)), "x"))
    if isinstance(v, np.ndarray):
        return [concrete_value(x) for x in v.flat]
    if isinstance(v, (list, tuple)):
        return [concrete_value(x) for x in v]
    if v is None:
        return ("n", None)
    return ("o", repr(v))


def values_agree(a, b, profile):
    if isinstance(a, list) or isinstance(b, list):
        if not (isinstance(a, list) and isinstance(b, list)) or len(a) != len(b):
            return False
        return all(values_agree(x, y, profile) for x, y in zip(a, b))
    ka, va = a
    kb, vb = b
    if {ka, kb} <= {"i", "b", "f"} and ka != kb:
        # numeric kinds may differ (int vs float): compare numerically
        fa = bits_float(int(va, 16)) if ka == "f" else float(va)
        fb = bits_float(int(vb, 16)) if kb == "f" else float(vb)
        return fa == fb
    if ka == "f":
        fa, fb = bits_float(int(va, 16)), bits_float(int(vb, 16))
        if fa != fa and fb != fb:
            return True
        if profile == "real":
            return math.isclose(fa, fb, rel_tol=1e-6, abs_tol=1e-9)
        return int(va, 16) == int(vb, 16)
    return va == vb
