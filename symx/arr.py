"""SArr: a real numpy ndarray (dtype=object) of symbolic scalars.  numpy provides shapes, broadcasting,
views, slicing, concatenate...; only leaf operations are intercepted here."""
from __future__ import annotations

import numpy as np
import z3

from . import core
from .core import RealisationError, SBool, SFloat, SInt, is_sym, ite, lift_float, lift_int, mk_bool


def _boxed(x):
    if isinstance(x, np.ndarray):
        if x.dtype != object and x.dtype.kind in "fiub":
            return x.astype(object)  # python scalars inside: numpy scalar types would re-enter ufunc dispatch
        return x.view(np.ndarray)
    if isinstance(x, np.generic):
        x = x.item()
    a = np.empty((), dtype=object)
    a[()] = x
    return a


def vec(f, nin, nout=1):
    """Element-wise application with numpy broadcasting that never re-enters __array_ufunc__ dispatch."""
    uf = np.frompyfunc(f, nin, nout)

    def call(*args):
        return uf(*[_boxed(a) for a in args])

    return call


def _plain(x):
    if isinstance(x, SArr):
        return x.view(np.ndarray)
    return x


def wrap(r):
    if isinstance(r, np.ndarray):
        if r.dtype == object:
            return r.view(SArr)
        return r
    return r


def has_sym(x) -> bool:
    if is_sym(x):
        return True
    if isinstance(x, np.ndarray):
        if x.dtype != object:
            return False
        return any(is_sym(v) for v in x.flat)
    if isinstance(x, (list, tuple)):
        return any(has_sym(v) for v in x)
    return False


# ------------------------------------------------------------------------------------------
# element-wise leaf operations
# ------------------------------------------------------------------------------------------


def _isnan(x):
    return core.isnan(x)


def _isinf(x):
    return core.isinf(x)


def _isfinite(x):
    return core.land(core.lnot(core.isnan(x)), core.lnot(core.isinf(x)))


def _lnot(x):
    return core.lnot(x)


def _minimum(a, b):
    # numpy: propagates NaN
    if not is_sym(a) and not is_sym(b):
        return np.minimum(a, b)
    # x86 minpd / maxpd semantics of numpy's loops: the SECOND operand is returned when the two compare equal (signed zeros)
    c = a < b
    r = ite(c, a, b) if isinstance(c, SBool) else (a if c else b)
    if core.ctx().profile == "fp":
        na, nb = core.isnan(a), core.isnan(b)
        r = _ite_any(na, a, _ite_any(nb, b, r))
    return r


def _maximum(a, b):
    if not is_sym(a) and not is_sym(b):
        return np.maximum(a, b)
    c = a > b
    r = ite(c, a, b) if isinstance(c, SBool) else (a if c else b)
    if core.ctx().profile == "fp":
        na, nb = core.isnan(a), core.isnan(b)
        r = _ite_any(na, a, _ite_any(nb, b, r))
    return r


def _ite_any(c, a, b):
    if isinstance(c, (bool, np.bool_)):
        return a if c else b
    return ite(c, a, b)


def _floor(x):
    if not is_sym(x):
        return np.floor(x)
    x = lift_float(x)
    if core.ctx().profile == "fp":
        return SFloat(z3.simplify(z3.fpRoundToIntegral(z3.RTN(), x.e)), x.nn)
    return SFloat(z3.ToReal(z3.ToInt(x.e)), True)


def _sqrt(x):
    if not is_sym(x):
        return np.sqrt(x)
    c = core.ctx()
    x = lift_float(x)
    if c.profile == "fp":
        return SFloat(z3.simplify(z3.fpSqrt(core.RNE, x.e)), False)
    return c.real_sqrt(x)


def _square(x):
    return x * x


def _land(a, b):
    return core.land(a, b)


def _lor(a, b):
    return core.lor(a, b)


def _band(a, b):
    if isinstance(a, (SBool, bool, np.bool_)) and isinstance(b, (SBool, bool, np.bool_)):
        return core.land(a, b)
    raise RealisationError("bitwise_and on non-booleans")


def _bor(a, b):
    if isinstance(a, (SBool, bool, np.bool_)) and isinstance(b, (SBool, bool, np.bool_)):
        return core.lor(a, b)
    raise RealisationError("bitwise_or on non-booleans")


def _invert(a):
    if isinstance(a, (SBool, bool, np.bool_)):
        return core.lnot(a)
    raise RealisationError("invert on non-boolean")


def _mul(a, b):
    return a * b


def _sign_of(x):
    raise RealisationError("np.sign")


UF = {
    np.add: lambda a, b: a + b,
    np.subtract: lambda a, b: a - b,
    np.multiply: _mul,
    np.true_divide: lambda a, b: a / b,
    np.negative: lambda a: -a,
    np.positive: lambda a: a,
    np.absolute: lambda a: abs(a),
    np.remainder: lambda a, b: a % b,
    np.floor_divide: lambda a, b: a // b,
    np.less: lambda a, b: a < b,
    np.less_equal: lambda a, b: a <= b,
    np.greater: lambda a, b: a > b,
    np.greater_equal: lambda a, b: a >= b,
    np.equal: lambda a, b: a == b,
    np.not_equal: lambda a, b: a != b,
    np.isnan: _isnan,
    np.isinf: _isinf,
    np.isfinite: _isfinite,
    np.logical_not: _lnot,
    np.logical_and: _land,
    np.logical_or: _lor,
    np.bitwise_and: _band,
    np.bitwise_or: _bor,
    np.invert: _invert,
    np.minimum: _minimum,
    np.maximum: _maximum,
    np.floor: _floor,
    np.sqrt: _sqrt,
    np.square: _square,
    np.power: lambda a, b: a**b,
}


def _objarr(x):
    """Anything array-like -> plain object ndarray (or a scalar left alone)."""
    if isinstance(x, np.ndarray):
        return x.view(np.ndarray)
    if isinstance(x, (list, tuple)):
        return to_obj_array(x)
    return x


def to_obj_array(x):
    """Build a plain object ndarray from nested lists/arrays of symbolic or concrete scalars."""
    if isinstance(x, np.ndarray):
        if x.dtype == object:
            return x.view(np.ndarray)
        return x.astype(object)
    if isinstance(x, (list, tuple)):
        subs = [to_obj_array(v) for v in x]
        if len(subs) == 0:
            return np.empty((0,), dtype=object)
        shapes = {(s.shape if isinstance(s, np.ndarray) else ()) for s in subs}
        if len(shapes) != 1:
            raise RealisationError(f"ragged array {shapes}")
        shp = shapes.pop()
        out = np.empty((len(subs),) + shp, dtype=object)
        for i, s in enumerate(subs):
            out[i] = s
        return out
    return x


def apply_ufunc(ufunc, method, inputs, kw):
    f = UF.get(ufunc)
    if f is None:
        # numpy's own object loops (matmul, dot-like ufuncs, ...) call the Python operators of the elements, which is exactly the
        # symbolic semantics of + and *; anything without an object loop is a C boundary
        if kw.get("out") is not None:
            raise RealisationError(f"ufunc {ufunc.__name__} with out=")
        try:
            res = getattr(ufunc, method)(*[_boxed(x) if not isinstance(x, np.ndarray) else _boxed(x) for x in inputs], **{k: v for k, v in kw.items() if k in ("axis", "axes", "keepdims")})
        except TypeError as e:
            raise RealisationError(f"ufunc {ufunc.__name__} not modelled ({e})")
        return wrap(res) if isinstance(res, np.ndarray) else res
    out = kw.pop("out", None)
    kw.pop("dtype", None)
    kw.pop("casting", None)
    ins = [_objarr(x) for x in inputs]
    if method == "__call__":
        if kw.get("where", True) is not True:
            raise RealisationError("ufunc where=")
        res = vec(f, ufunc.nin, 1)(*ins)
        if out is not None:
            o = out[0]
            o.view(np.ndarray)[...] = res
            return o
        return wrap(res) if isinstance(res, np.ndarray) else res
    if method == "reduce":
        a = ins[0]
        if not isinstance(a, np.ndarray):
            a = np.asarray(a, dtype=object)
        axis = kw.get("axis", 0)
        keepdims = kw.get("keepdims", False)
        initial = kw.get("initial", None)
        res = reduce_obj(f, a, axis, keepdims, initial, ufunc)
        return wrap(res) if isinstance(res, np.ndarray) else res
    raise RealisationError(f"ufunc method {method}")


_IDENT = {np.add: 0.0, np.logical_or: False, np.logical_and: True, np.multiply: 1.0, np.bitwise_or: False, np.bitwise_and: True}


def reduce_obj(f, a, axis, keepdims, initial, ufunc=None):
    if axis is None:
        flat = list(a.flat)
        if initial is not None:
            flat = [initial] + flat
        if not flat:
            if ufunc in _IDENT:
                return _IDENT[ufunc]
            raise ValueError("zero-size array to reduction operation which has no identity")
        acc = flat[0]
        for v in flat[1:]:
            acc = f(acc, v)
        if keepdims:
            r = np.empty((1,) * a.ndim, dtype=object)
            r.flat[0] = acc
            return r
        return acc
    if isinstance(axis, tuple):
        if len(axis) == 1:
            axis = axis[0]
        else:
            raise RealisationError("multi-axis reduce")
    axis = axis % a.ndim if a.ndim else 0
    moved = np.moveaxis(a, axis, 0)
    n = moved.shape[0]
    rest = moved.shape[1:]
    out = np.empty(rest, dtype=object)
    if n == 0:
        if ufunc in _IDENT:
            out[...] = _IDENT[ufunc]
        else:
            raise ValueError("zero-size array to reduction operation which has no identity")
    for idx in np.ndindex(*rest):
        if n == 0:
            break
        acc = moved[(0,) + idx] if initial is None else f(initial, moved[(0,) + idx])
        for i in range(1, n):
            acc = f(acc, moved[(i,) + idx])
        out[idx] = acc
    if rest == ():
        out = out[()]
        if keepdims:
            r = np.empty((1,) * a.ndim, dtype=object)
            r.flat[0] = out
            return r
        return out
    if keepdims:
        out = np.expand_dims(out, axis)
    return out


def scalar_ufunc(ufunc, method, *inputs, **kw):
    return apply_ufunc(ufunc, method, inputs, kw)


def scalar_array_function(func, args, kwargs):
    """numpy functions called directly on symbolic scalars (np.isclose(d, t), np.clip(x, lo, hi), np.where(c, a, b) ...)"""
    h = HANDLED.get(func)
    if h is None:
        raise RealisationError(f"numpy function {getattr(func, '__name__', func)} on a symbolic scalar not modelled")
    r = h(*args, **kwargs)
    if isinstance(r, np.ndarray) and r.shape == ():
        return r[()]
    return r


# ------------------------------------------------------------------------------------------
# sorting / arg-selection by forking comparisons
# ------------------------------------------------------------------------------------------


def _lt_fork(a, b) -> bool:
    """a sorts strictly before b in numpy's order (NaN last); forks."""
    na, nb = core.isnan(a), core.isnan(b)
    if bool(na):
        return False
    if bool(nb):
        return True
    return bool(a < b)


def argsort_fork(vals, demonic_ties=False):
    """Insertion sort with forking comparisons.  Default: ties keep their input order (numpy's small-array sort is an
    insertion sort, hence stable; reported as an assumption and validated by replay).  demonic_ties=True additionally
    forks both orders of every tie (any valid sorting permutation, for an unstable sort)."""
    c = core.ctx()
    c.bound_notes.add("np.argsort: ties " + ("in any order (demonic)" if demonic_ties else "in input order (stable small-array sort)"))
    order = []
    for i, v in enumerate(vals):
        pos = len(order)
        for j in range(len(order) - 1, -1, -1):
            k = order[j]
            # does v sort strictly before vals[k]?
            if _lt_fork(v, vals[k]):
                pos = j
                continue
            if demonic_ties and (is_sym(v) or is_sym(vals[k])) and bool(core.feq(v, vals[k])) and c.choose("tie-order"):
                pos = j
                continue
            break
        order.insert(pos, i)
    return np.array(order, dtype=np.intp)


def argsort_merge(vals):
    """argsort as merged symbolic indices (no fork).  numpy's default sort is not stable, so ties are ordered by
    fresh pairwise-distinct tie-break keys (every valid sorting permutation is admitted); the stable order is
    registered as a *preference* used only when a counterexample model is extracted.  NaN sorts last."""
    c = core.ctx()
    n = len(vals)
    if n <= 1 or not any(is_sym(v) for v in vals):
        return np.argsort(np.array([float(v) for v in vals], dtype=np.float64)) if n else np.array([], dtype=np.intp)
    tag = c.fresh_name("tie")
    ts = []
    for i in range(n):
        t = SInt(z3.BitVec(f"{tag}.{i}", 32) if c.profile == "fp" else z3.Int(f"{tag}.{i}"))
        c.assume(core.land(t >= 0, t <= n - 1))
        ts.append(t)
        c.aux_decls[f"{tag}.{i}"] = ("int", t.e)
        c.preferences.append((t == i).e if is_sym(t == i) else z3.BoolVal(True))
    for i in range(n):
        for j in range(i + 1, n):
            c.assume(ts[i] != ts[j])
    nan = [core.isnan(v) for v in vals]

    def before(i, j):
        vi, vj = vals[i], vals[j]
        lt = vi < vj
        eq = core.feq(vi, vj)
        both_nan = core.land(nan[i], nan[j])
        tie = core.lor(eq, both_nan)
        return core.lor(core.land(core.lnot(nan[i]), nan[j]), core.land(iff_(nan[i], nan[j]), core.lor(lt, core.land(tie, ts[i] < ts[j]))))

    ranks = []
    for i in range(n):
        r = 0
        for j in range(n):
            if j != i:
                b = before(j, i)
                r = (lift_int(b) if is_sym(b) else int(bool(b))) + r
        ranks.append(r)
    order = np.empty(n, dtype=object)
    for pos in range(n):
        acc = n - 1
        for i in range(n - 2, -1, -1):
            acc = _ite_any(ranks[i] == pos, i, acc)
        order[pos] = acc
    return order.view(SArr)


def iff_(a, b):
    return core.iff(a, b)


def argbest_merge(vals, better):
    """argmin/argmax as a merged (non-forking) SInt: first index attaining the extreme (numpy semantics,
    NaN wins as in numpy)."""
    best_i = 0
    best_v = vals[0]
    for i in range(1, len(vals)):
        v = vals[i]
        c = better(v, best_v)
        if core.ctx().profile == "fp":
            # numpy: first NaN wins
            c = core.land(core.lnot(core.isnan(best_v)), core.lor(c, core.isnan(v)))
        best_i = _ite_any(c, i, best_i)
        best_v = _ite_any(c, v, best_v)
    return best_i, best_v


# ------------------------------------------------------------------------------------------
# __array_function__ handlers
# ------------------------------------------------------------------------------------------

HANDLED = {}


def implements(*funcs):
    def deco(f):
        for fn in funcs:
            HANDLED[fn] = f
        return f

    return deco


@implements(np.where)
def _where(cond, x=None, y=None):
    if x is None:
        raise RealisationError("np.where(cond) with one argument")
    res = vec(_ite_any, 3, 1)(_objarr(cond), _objarr(x), _objarr(y))
    return wrap(res)


@implements(np.clip)
def _clip(a, a_min=None, a_max=None, out=None, **kw):
    # numpy's clip loop: _NPY_MIN(_NPY_MAX(x, lo), hi) with MAX(a,b) = isnan(a) ? a : (a > b ? a : b)  (strict compare,
    # so clip(-0.0, 0.0, hi) = +0.0), MIN(a,b) = isnan(a) ? a : (a < b ? a : b)
    def cmax(x, lo):
        if not is_sym(x) and not is_sym(lo):
            return np.clip(x, lo, None)
        return _ite_any(core.isnan(x), x, _ite_any(x > lo, x, lo))

    def cmin(x, hi):
        if not is_sym(x) and not is_sym(hi):
            return np.clip(x, None, hi)
        return _ite_any(core.isnan(x), x, _ite_any(x < hi, x, hi))

    r = _objarr(a)
    if a_min is not None:
        r = vec(cmax, 2, 1)(r, _objarr(a_min))
    if a_max is not None:
        r = vec(cmin, 2, 1)(r, _objarr(a_max))
    return wrap(r)


@implements(np.any)
def _any(a, axis=None, out=None, keepdims=False, **kw):
    a = _objarr(a)
    return wrap(reduce_obj(_lor, a, axis, keepdims, None, np.logical_or)) if True else None


@implements(np.all)
def _all(a, axis=None, out=None, keepdims=False, **kw):
    a = _objarr(a)
    return wrap(reduce_obj(_land, a, axis, keepdims, None, np.logical_and))


@implements(np.sum)
def _sum(a, axis=None, dtype=None, out=None, keepdims=False, initial=None, **kw):
    a = _objarr(a)
    if not isinstance(a, np.ndarray):
        a = np.asarray(a, dtype=object)
    return wrap(reduce_obj(lambda x, y: x + y, a, axis, keepdims, initial, np.add))


@implements(np.mean)
def _mean(a, axis=None, dtype=None, out=None, keepdims=False, **kw):
    a = _objarr(a)
    if not isinstance(a, np.ndarray):
        a = np.asarray(a, dtype=object)
    if core.ctx().profile == "fp" and a.size > 2:
        # numpy's pairwise summation order is not modelled bit-precisely
        raise RealisationError("np.mean of >2 symbolic floats in profile 'fp'")
    s = reduce_obj(lambda x, y: x + y, a, axis, keepdims, None, np.add)
    n = a.size if axis is None else a.shape[axis]
    if isinstance(s, np.ndarray):
        return wrap(vec(lambda v: v / float(n), 1, 1)(s))
    return s / float(n)


@implements(np.min, np.amin)
def _min(a, axis=None, out=None, keepdims=False, **kw):
    a = _objarr(a)
    if not isinstance(a, np.ndarray):
        a = np.asarray(a, dtype=object)
    return wrap(reduce_obj(_minimum, a, axis, keepdims, None))


@implements(np.max, np.amax)
def _max(a, axis=None, out=None, keepdims=False, **kw):
    a = _objarr(a)
    if not isinstance(a, np.ndarray):
        a = np.asarray(a, dtype=object)
    return wrap(reduce_obj(_maximum, a, axis, keepdims, None))


def _arg_axis(a, axis, better):
    a = _objarr(a)
    if axis is None:
        i, _ = argbest_merge(list(a.flat), better)
        return i
    moved = np.moveaxis(a, axis, -1)
    out = np.empty(moved.shape[:-1], dtype=object)
    for idx in np.ndindex(*moved.shape[:-1]):
        out[idx], _ = argbest_merge(list(moved[idx]), better)
    if out.shape == ():
        return out[()]
    return wrap(out)


@implements(np.argmin)
def _argmin(a, axis=None, out=None, **kw):
    return _arg_axis(a, axis, lambda v, b: v < b)


@implements(np.argmax)
def _argmax(a, axis=None, out=None, **kw):
    return _arg_axis(a, axis, lambda v, b: v > b)


@implements(np.argsort)
def _argsort(a, axis=-1, kind=None, order=None, **kw):
    a = _objarr(a)
    if a.ndim != 1:
        raise RealisationError("argsort of a non 1-D symbolic array")
    mode = core.ctx().argsort_mode
    if mode == "merge":
        return argsort_merge(list(a))
    return argsort_fork(list(a), demonic_ties=(mode == "fork-ties"))


@implements(np.sort)
def _sort(a, axis=-1, kind=None, order=None, **kw):
    a = _objarr(a)
    if a.ndim != 1:
        raise RealisationError("sort of a non 1-D symbolic array")
    return wrap(a[argsort_fork(list(a), demonic_ties=(core.ctx().argsort_mode == 'fork-ties'))])


@implements(np.partition)
def _partition(a, kth, axis=-1, kind="introselect", order=None):
    # any array with the kth element in sorted position is a valid partition; the fully sorted one is returned
    a = _objarr(a)
    if a.ndim != 1:
        raise RealisationError("partition of a non 1-D symbolic array")
    return wrap(a[argsort_fork(list(a), demonic_ties=(core.ctx().argsort_mode == 'fork-ties'))])


@implements(np.isclose)
def _isclose(a, b, rtol=1e-05, atol=1e-08, equal_nan=False):
    def f(x, y):
        if not is_sym(x) and not is_sym(y):
            return bool(np.isclose(x, y, rtol=rtol, atol=atol))
        fin = True
        if core.ctx().profile == "fp":
            fin = core.land(_isfinite(x), _isfinite(y))
        close = abs(x - y) <= atol + rtol * abs(y)
        if fin is True:
            return close
        return _ite_any(fin, close, x == y)

    return wrap(vec(f, 2, 1)(_objarr(a), _objarr(b)))


@implements(np.array_equal)
def _array_equal(a1, a2, equal_nan=False):
    a1, a2 = _objarr(a1), _objarr(a2)
    if np.shape(a1) != np.shape(a2):
        return False
    eq = vec(lambda x, y: x == y, 2, 1)(a1, a2)
    return reduce_obj(_land, np.asarray(eq, dtype=object), None, False, None, np.logical_and)


@implements(np.linalg.norm)
def _norm(x, ord=None, axis=None, keepdims=False):
    x = _objarr(x)
    if not isinstance(x, np.ndarray):
        return abs(x)

    def norm1d(v):
        v = list(v)
        if ord is None or ord == 2:
            if len(v) == 1:
                return abs(v[0])
            s = v[0] * v[0]
            for t in v[1:]:
                s = s + t * t
            return _sqrt(s)
        if ord == 1:
            s = abs(v[0])
            for t in v[1:]:
                s = s + abs(t)
            return s
        if ord == np.inf:
            s = abs(v[0])
            for t in v[1:]:
                s = _maximum(s, abs(t))
            return s
        raise RealisationError(f"norm ord={ord}")

    if axis is None:
        if x.ndim == 2:
            return _matrix_norm(x, ord)
        if x.ndim != 1:
            raise RealisationError("norm of an array of rank > 2")
        return norm1d(x)
    moved = np.moveaxis(x, axis, -1)
    out = np.empty(moved.shape[:-1], dtype=object)
    for idx in np.ndindex(*moved.shape[:-1]):
        out[idx] = norm1d(moved[idx])
    return wrap(out)


def _matrix_norm(x, ord):
    """numpy's matrix norms for small symbolic matrices: 'fro'/None, 1 (max column sum), inf (max row sum), 2 (spectral, up to 2x2 /
    single row / single column, closed form)."""
    r, c = x.shape
    rows = [[x[i, j] for j in range(c)] for i in range(r)]

    def fold(vals, f):
        acc = vals[0]
        for v in vals[1:]:
            acc = f(acc, v)
        return acc

    if ord is None or ord == "fro":
        return _sqrt(fold([v * v for row in rows for v in row], lambda a, b: a + b))
    if ord == 1:
        return fold([fold([abs(rows[i][j]) for i in range(r)], lambda a, b: a + b) for j in range(c)], _maximum)
    if ord == np.inf:
        return fold([fold([abs(v) for v in row], lambda a, b: a + b) for row in rows], _maximum)
    if ord == 2:
        if r == 1 or c == 1:
            return _sqrt(fold([v * v for row in rows for v in row], lambda a, b: a + b))
        if r == 2 and c == 2:
            (a, b), (cc, d) = rows
            # eigenvalues of A^T A: T = a^2+b^2+c^2+d^2, D = (ad - bc)^2 ; sigma_max^2 = (T + sqrt(T^2 - 4D)) / 2
            T = a * a + b * b + cc * cc + d * d
            det = a * d - b * cc
            disc = _sqrt(T * T - 4.0 * (det * det))
            return _sqrt((T + disc) / 2.0)
    raise RealisationError(f"matrix norm ord={ord} shape={x.shape}")


@implements(np.copy)
def _copy(a, order="K", subok=False):
    return wrap(np.array(_objarr(a), dtype=object, copy=True))


@implements(np.zeros_like)
def _zeros_like(a, dtype=None, order="K", subok=True, shape=None):
    r = np.empty(np.shape(a) if shape is None else shape, dtype=object)
    r[...] = 0.0
    return wrap(r)


@implements(np.repeat)
def _repeat(a, repeats, axis=None):
    return wrap(np.repeat(_objarr(a), repeats, axis=axis))


@implements(np.fill_diagonal)
def _fill_diagonal(a, val, wrap=False):
    np.fill_diagonal(_plain(a), val)


class SArr(np.ndarray):
    __array_priority__ = 1000

    def __array_finalize__(self, obj):
        pass

    def __array_ufunc__(self, ufunc, method, *inputs, **kw):
        return apply_ufunc(ufunc, method, inputs, kw)

    def __array_function__(self, func, types, args, kwargs):
        h = HANDLED.get(func)
        if h is not None:
            return h(*args, **kwargs)
        # default: numpy's own implementation on plain object views (shape plumbing only)
        pargs = _deep_plain(args)
        pkw = {k: _deep_plain(v) for k, v in kwargs.items()}
        r = func._implementation(*pargs, **pkw)
        if isinstance(r, np.ndarray) and r.dtype == object:
            return r.view(SArr)
        if isinstance(r, (list, tuple)):
            return type(r)(wrap(v) for v in r)
        return r

    # ---- indexing
    def __getitem__(self, idx):
        k = classify_index(idx)
        if k == "plain":
            r = self.view(np.ndarray)[idx]
            return r.view(SArr) if isinstance(r, np.ndarray) else r
        if k == "mask":
            m = concretise_mask(idx)
            r = self.view(np.ndarray)[m]
            return r.view(SArr)
        return select_symbolic(self.view(np.ndarray), idx)

    def __setitem__(self, idx, value):
        k = classify_index(idx)
        value = _plain(value)
        if isinstance(value, (list, tuple)):
            value = to_obj_array(value)
        base = self.view(np.ndarray)
        if k == "plain":
            base[idx] = value
            return
        if k == "mask":
            if not isinstance(value, np.ndarray) or np.ndim(value) == 0:
                # scalar assignment under a symbolic mask: merge, no fork
                m = _objarr(idx)
                mb = np.broadcast_to(m.reshape(m.shape + (1,) * (base.ndim - m.ndim)), base.shape)
                new = vec(_ite_any, 3, 1)(mb, value, base)
                base[...] = new
                return
            m = concretise_mask(idx)
            base[m] = value
            return
        raise RealisationError("assignment through a symbolic integer index")

    def __bool__(self):
        if self.size != 1:
            raise ValueError("The truth value of an array with more than one element is ambiguous.")
        return bool(self.flat[0])

    def __iter__(self):
        # keep SArr-ness of rows
        for i in range(self.shape[0]):
            yield self[i]

    def copy(self, order="C"):
        return np.array(self.view(np.ndarray), dtype=object, copy=True).view(SArr)

    def astype(self, dtype, *a, **k):
        if dtype is object:
            return self.copy()
        if has_sym(self):
            raise RealisationError(f"astype({dtype}) of a symbolic array")
        return self.view(np.ndarray).astype(dtype)

    def any(self, axis=None, out=None, keepdims=False, **kw):
        return _any(self, axis=axis, keepdims=keepdims)

    def all(self, axis=None, out=None, keepdims=False, **kw):
        return _all(self, axis=axis, keepdims=keepdims)

    def sum(self, axis=None, dtype=None, out=None, keepdims=False, **kw):
        return _sum(self, axis=axis, keepdims=keepdims)

    def mean(self, axis=None, dtype=None, out=None, keepdims=False, **kw):
        return _mean(self, axis=axis, keepdims=keepdims)

    def min(self, axis=None, out=None, keepdims=False, **kw):
        return _min(self, axis=axis, keepdims=keepdims)

    def max(self, axis=None, out=None, keepdims=False, **kw):
        return _max(self, axis=axis, keepdims=keepdims)

    def argsort(self, axis=-1, kind=None, order=None):
        return _argsort(self, axis=axis)

    def argmin(self, axis=None, out=None, **kw):
        return _argmin(self, axis=axis)

    def argmax(self, axis=None, out=None, **kw):
        return _argmax(self, axis=axis)

    def __str__(self):
        if not has_sym(self):
            # concrete contents: numpy's own rendering of the float64 array (8 significant digits) - faithful to the real code
            try:
                return str(np.array(self.view(np.ndarray), dtype=np.float64))
            except (TypeError, ValueError):
                pass
        return "[" + " ".join(_tok(v) for v in self.flat) + "]"

    __repr__ = __str__

    def __format__(self, spec):
        return self.__str__()


def _tok(v):
    if is_sym(v):
        return repr(v)
    return repr(float(v)) if isinstance(v, (float, np.floating)) else repr(v)


def _deep_plain(x):
    if isinstance(x, SArr):
        return x.view(np.ndarray)
    if isinstance(x, (list, tuple)):
        return type(x)(_deep_plain(v) for v in x)
    return x


def classify_index(idx):
    items = idx if isinstance(idx, tuple) else (idx,)
    kind = "plain"
    for it in items:
        if isinstance(it, SBool):
            return "mask"
        if isinstance(it, SInt):
            return "symint"
        if isinstance(it, np.ndarray) and it.dtype == object:
            first = next((v for v in it.flat if is_sym(v)), None)
            if first is None:
                # concrete values in an object array: convert lazily below
                sample = next(iter(it.flat), None)
                if isinstance(sample, (bool, np.bool_)):
                    return "mask"
                return "symint"
            if isinstance(first, SBool):
                return "mask"
            if isinstance(first, SInt):
                return "symint"
            raise RealisationError("float array used as an index")
    return kind


def concretise_mask(idx):
    """Symbolic boolean mask -> concrete numpy bool mask, forking on each symbolic bit."""
    if isinstance(idx, tuple):
        return tuple(concretise_mask(i) if (isinstance(i, np.ndarray) and i.dtype == object) or isinstance(i, SBool) else i for i in idx)
    if isinstance(idx, SBool):
        return bool(idx)
    a = _objarr(idx)
    out = np.empty(a.shape, dtype=bool)
    for i in np.ndindex(*a.shape):
        out[i] = bool(a[i])
    return out


def select_symbolic(base, idx):
    """base[idx] where idx contains symbolic integers: ite-chain select over the (small, concrete) axis."""
    items = idx if isinstance(idx, tuple) else (idx,)
    if len(items) == 1:
        ia = _objarr(items[0])
        if not isinstance(ia, np.ndarray):
            return _select_axis0(base, ia)
        out = np.empty(ia.shape + base.shape[1:], dtype=object)
        for i in np.ndindex(*ia.shape):
            out[i] = _select_axis0(base, ia[i])
        return wrap(out)
    if len(items) == 2:
        a0, a1 = _objarr(items[0]), _objarr(items[1])
        a0b, a1b = np.broadcast_arrays(np.asarray(a0, dtype=object), np.asarray(a1, dtype=object))
        out = np.empty(a0b.shape + base.shape[2:], dtype=object)
        for i in np.ndindex(*a0b.shape):
            row = _select_axis0(base, a0b[i])
            out[i] = _select_axis0(row, a1b[i])
        return wrap(out) if out.shape != () else out[()]
    raise RealisationError("symbolic index of rank > 2")


def _select_axis0(base, i):
    if not is_sym(i):
        return base[int(i)]
    n = base.shape[0]
    if n == 0:
        raise IndexError("index into empty axis")
    # negative indices are not produced by the stubs (range asserted by the provider)
    acc = base[n - 1]
    for k in range(n - 2, -1, -1):
        c = i == k
        if isinstance(acc, np.ndarray):
            acc = vec(_ite_any, 3, 1)(c, base[k], acc)
        else:
            acc = _ite_any(c, base[k], acc)
    return acc


def sarr(x):
    """Public constructor: nested lists / arrays -> SArr."""
    a = to_obj_array(x)
    if not isinstance(a, np.ndarray):
        a = np.asarray(a, dtype=object)
    return a.view(SArr)
