"""Providers (symbolic / replay), environment stubs, path explorer, obligation discharge, replay."""
from __future__ import annotations

import contextlib
import hashlib
import importlib
import inspect
import json
import math
import os
import sys
import time
import traceback

import numpy as np
import z3

from . import arr, core, solve
from .core import (
    CutPath,
    EncodingMismatch,
    Infeasible,
    RealisationError,
    SBool,
    SFloat,
    SInt,
    bits_float,
    float_bits,
    is_sym,
    land,
    lnot,
    lor,
)

REPO = os.environ.get("PYHMS_REPO", "/repo")


# ----------------------------------------------------------------------------------------------
# providers
# ----------------------------------------------------------------------------------------------


class BaseProvider:
    concrete = False

    def __init__(self):
        self.obligations = []  # (name, cond)
        self.observations = []  # (name, value)
        self.assumption_notes = []
        self.cuts = []
        self.stub_notes = set()
        self._counters = {}
        self.uf_tables = {}  # name -> list of (arg values, result)

    def _n(self, base):
        k = self._counters.get(base, 0)
        self._counters[base] = k + 1
        return f"{base}#{k}"

    def oblige(self, name, cond):
        self.obligations.append((name, cond))

    def observe(self, name, value):
        self.observations.append((name, value))

    def cut(self, note):
        self.cuts.append(note)
        raise CutPath(note)

    def note_stub(self, text):
        self.stub_notes.add(text)

    # arrays
    def floats(self, name, shape, **kw):
        shape = (shape,) if isinstance(shape, int) else tuple(shape)
        vals = [self.float(f"{name}[{','.join(map(str, i))}]", **kw) for i in np.ndindex(*shape)]
        return self.mk_array(vals, shape, float)

    def ints(self, name, shape, lo, hi):
        shape = (shape,) if isinstance(shape, int) else tuple(shape)
        vals = [self.int(f"{name}[{','.join(map(str, i))}]", lo, hi) for i in np.ndindex(*shape)]
        return self.mk_array(vals, shape, int)


class SymProvider(BaseProvider):
    def __init__(self, ctx):
        super().__init__()
        self.ctx = ctx
        self.decls = {}  # name -> (kind, z3 const)
        self.ufs = {}  # name -> (z3 func, arity)
        self.uf_calls = {}  # name -> list of (arg terms, result term)

    def float(self, name, nn=True, finite=False, lo=None, hi=None):
        assert name not in self.decls, name
        if self.ctx.profile == "fp":
            c = z3.BitVec(name, 64)
            self.decls[name] = ("fbits", c)
            v = SFloat(None, nn or finite, c)
            if finite:
                self.ctx.assume(SBool((c & core.EXPMASK) != core.EXPMASK))
            elif nn:
                self.ctx.assume(SBool(z3.Not(z3.And((c & core.EXPMASK) == core.EXPMASK, (c & core.MANTMASK) != core.ZERO64))))
        else:
            c = z3.Real(name)
            self.decls[name] = ("real", c)
            v = SFloat(c, True)
        if lo is not None:
            self.ctx.assume(v >= lo)
        if hi is not None:
            self.ctx.assume(v <= hi)
        return v

    def int(self, name, lo, hi):
        """lo <= v <= hi (inclusive)."""
        assert name not in self.decls, name
        if lo == hi:
            return lo
        if self.ctx.profile == "fp":
            c = z3.BitVec(name, 32)
        else:
            c = z3.Int(name)
        self.decls[name] = ("int", c)
        v = SInt(c)
        self.ctx.assume(land(v >= lo, v <= hi))
        return v

    def bool(self, name):
        assert name not in self.decls, name
        c = z3.Bool(name)
        self.decls[name] = ("bool", c)
        return SBool(c)

    def mk_array(self, vals, shape, kind):
        a = np.empty(shape, dtype=object)
        for i, v in zip(np.ndindex(*shape), vals):
            a[i] = v
        return a.view(arr.SArr)

    def assume(self, cond, note=None):
        if note:
            self.assumption_notes.append(note)
        self.ctx.assume(cond, None)

    def uf(self, name, arity):
        """Uninterpreted deterministic objective F: float^arity -> float, never NaN (reported assumption).
        Signed zeros are canonicalised at the boundary (the objective is assumed not to distinguish -0.0/+0.0)."""
        if name not in self.ufs:
            srt = z3.BitVecSort(64) if self.ctx.profile == "fp" else z3.RealSort()
            f = z3.Function(name, *([srt] * arity), srt)
            self.ufs[name] = (f, arity)
            self.uf_calls[name] = []
        prov = self

        def F(x):
            f, ar = prov.ufs[name]
            xs = list(np.asarray(arr._objarr(x), dtype=object).flat) if not is_sym(x) else [x]
            if len(xs) != ar:
                raise RealisationError(f"objective {name} called with {len(xs)} coordinates, expected {ar}")
            terms = []
            for v in xs:
                fv = core.lift_float(v)
                if isinstance(fv, core._Inf):
                    raise RealisationError("objective called on an infinite coordinate")
                if prov.ctx.profile == "fp":
                    t = fv.b
                    t = z3.simplify(z3.If((t & core.ABSMASK) == core.ZERO64, core.ZERO64, t))
                else:
                    t = fv.e
                terms.append(t)
            r = f(*terms)
            prov.uf_calls[name].append((terms, r))
            if prov.ctx.profile == "fp":
                prov.ctx.assume(SBool(z3.Not(z3.And((r & core.EXPMASK) == core.EXPMASK, (r & core.MANTMASK) != core.ZERO64))))
                return SFloat(None, True, r)
            return SFloat(r, True)

        F.calls = self.uf_calls[name]
        F.n_calls = lambda: len(prov.uf_calls[name])
        def _mk(t):
            return SFloat(None, True, t) if prov.ctx.profile == "fp" else SFloat(t, True)

        F.log = lambda: [(arr.sarr([_mk(t) for t in ts]), _mk(r)) for ts, r in prov.uf_calls[name]]
        return F


class ReplayProvider(BaseProvider):
    concrete = True

    def __init__(self, values, uf_tables):
        super().__init__()
        self.values = values
        self.tables = uf_tables
        self.missing = []
        self.uf_logs = {}

    def _get(self, name, default):
        if name not in self.values:
            self.missing.append(name)
            return default
        return self.values[name]

    def float(self, name, nn=True, finite=False, lo=None, hi=None):
        v = self._get(name, 0.0)
        if isinstance(v, str):
            v = bits_float(int(v, 16))
        v = float(v)
        if lo is not None and not v >= lo or hi is not None and not v <= hi or (nn and v != v):
            raise EncodingMismatch(f"model value of {name}={v} violates its declared range")
        return v

    def int(self, name, lo, hi):
        if lo == hi:
            return lo
        v = int(self._get(name, lo))
        if not lo <= v <= hi:
            raise EncodingMismatch(f"model value of {name}={v} violates its declared range")
        return v

    def bool(self, name):
        return bool(self._get(name, False))

    def mk_array(self, vals, shape, kind):
        dt = {float: np.float64, int: np.int64, bool: np.bool_}[kind]
        return np.array(vals, dtype=dt).reshape(shape)

    def assume(self, cond, note=None):
        if not bool(cond):
            raise EncodingMismatch(f"replayed model violates assumption {note or ''}")

    def uf(self, name, arity):
        table = {tuple(k): v for k, v in self.tables.get(name, {}).get("table", [])}
        default = self.tables.get(name, {}).get("default", "0")
        log = self.uf_logs.setdefault(name, [])

        def F(x):
            xs = [float(v) for v in np.asarray(x, dtype=np.float64).flat]
            key = tuple(format(float_bits(v + 0.0 if v != 0 else 0.0), "x") for v in xs)
            r = table.get(key, default)
            r = bits_float(int(r, 16))
            log.append((np.array(xs), r))
            return r

        F.n_calls = lambda: len(log)
        F.log = lambda: list(log)
        return F


# ----------------------------------------------------------------------------------------------
# numpy proxy with environment stubs (RNG etc.)
# ----------------------------------------------------------------------------------------------


class _Proxy:
    def __init__(self, real, overrides):
        object.__setattr__(self, "_real", real)
        object.__setattr__(self, "_ov", overrides)

    def __getattr__(self, name):
        ov = object.__getattribute__(self, "_ov")
        if name in ov:
            return ov[name]
        return getattr(object.__getattribute__(self, "_real"), name)


def _shape_of(size):
    if size is None:
        return None
    if isinstance(size, (int, np.integer)):
        return (int(size),)
    return tuple(int(s) for s in size)


class RandomStub:
    """np.random.* as nondeterministic draws constrained only by numpy's documented contracts."""

    def __init__(self, P):
        self.P = P

    def _draw(self, base, shape, constrain, kind=float, **kw):
        P = self.P
        name = P._n(base)
        if shape is None:
            v = P.float(name, **kw) if kind is float else None
            constrain(v, ())
            return v
        vals = []
        for i in np.ndindex(*shape):
            v = P.float(f"{name}[{','.join(map(str, i))}]", **kw)
            constrain(v, i)
            vals.append(v)
        return P.mk_array(vals, shape, float)

    def seed(self, *a, **k):
        return None

    def rand(self, *shape):
        self.P.note_stub("np.random.rand: arbitrary u with 0 <= u < 1")
        P = self.P

        def con(v, i):
            P.assume(land(v >= 0.0, v < 1.0))
            if is_sym(v) and core.ctx().profile == "fp":
                core.ctx().unit_terms[v.e.get_id()] = v.e

        return self._draw("rand", shape if shape else None, con, finite=True)

    def random_sample(self, size=None):
        return self.rand(*(_shape_of(size) or ()))

    random = random_sample

    def uniform(self, low=0.0, high=1.0, size=None):
        self.P.note_stub("np.random.uniform(lo,hi): arbitrary u with lo <= u <= hi (hi may be reached by rounding, per numpy docs)")
        P = self.P
        shape = _shape_of(size)
        lo_b = np.broadcast_to(np.asarray(arr._objarr(low), dtype=object), shape if shape else ())
        hi_b = np.broadcast_to(np.asarray(arr._objarr(high), dtype=object), shape if shape else ())

        def con(v, i):
            P.assume(land(v >= lo_b[i], v <= hi_b[i]))

        return self._draw("uniform", shape, con, finite=True)

    def normal(self, loc=0.0, scale=1.0, size=None):
        self.P.note_stub("np.random.normal: arbitrary finite value")
        return self._draw("normal", _shape_of(size), lambda v, i: None, finite=True)

    def randn(self, *shape):
        return self.normal(size=shape if shape else None)

    def multivariate_normal(self, mean, cov, size=None):
        self.P.note_stub("np.random.multivariate_normal: arbitrary finite vector")
        return self._draw("mvnormal", (len(mean),), lambda v, i: None, finite=True)

    def randint(self, low, high=None, size=None):
        self.P.note_stub("np.random.randint(lo,hi): arbitrary integer lo <= k < hi")
        if high is None:
            low, high = 0, low
        P = self.P
        name = P._n("randint")
        shape = _shape_of(size)
        if shape is None:
            v = P.int(name, int(low), int(high) - 1)
            if is_sym(v):
                # a scalar draw is typically used as a slice bound / index: concretise by forking over its range
                for k in range(int(low), int(high) - 1):
                    if bool(v == k):
                        return k
                return int(high) - 1
            return v
        return P.ints(name, shape, int(low), int(high) - 1)

    def choice(self, a, size=None, replace=True, p=None):
        self.P.note_stub("np.random.choice: arbitrary elements of a (pairwise distinct positions when replace=False)")
        if p is not None:
            raise RealisationError("np.random.choice with p")
        P = self.P
        pool = np.arange(a) if isinstance(a, (int, np.integer)) else np.asarray(arr._objarr(a))
        n = len(pool)
        if n == 0:
            raise ValueError("a cannot be empty")
        name = P._n("choice")
        shape = _shape_of(size)
        k = 1 if shape is None else int(np.prod(shape))
        if not replace and k > n:
            raise ValueError("Cannot take a larger sample than population when 'replace=False'")
        idx = [P.int(f"{name}[{j}]", 0, n - 1) for j in range(k)]
        if not replace:
            for x in range(k):
                for y in range(x + 1, k):
                    P.assume(idx[x] != idx[y])
        poolo = pool.astype(object) if pool.dtype != object else pool
        vals = [arr._select_axis0(poolo, i) for i in idx]
        if shape is None:
            return vals[0]
        kind = int if pool.dtype.kind in "iu" else float
        if pool.dtype == object:
            kind = None
        if kind is None:
            out = np.empty(shape, dtype=object)
            for i, v in zip(np.ndindex(*shape), vals):
                out[i] = v
            return out.view(arr.SArr) if not P.concrete else out
        return P.mk_array(vals, shape, kind)

    def shuffle(self, x):
        raise RealisationError("np.random.shuffle not modelled")

    def permutation(self, x):
        raise RealisationError("np.random.permutation not modelled")


def sym_np_array(obj, dtype=None, copy=True, **kw):
    if arr.has_sym(obj) or isinstance(obj, arr.SArr) or (isinstance(obj, (list, tuple)) and any(isinstance(v, arr.SArr) for v in obj)):
        a = arr.to_obj_array(obj)
        if not isinstance(a, np.ndarray):
            a = np.asarray(a, dtype=object)
        return np.array(a, dtype=object, copy=True).view(arr.SArr)
    return np.array(obj, dtype=dtype, copy=copy, **kw)


def sym_np_full(shape, fill_value, dtype=None, **kw):
    if is_sym(fill_value):
        a = np.empty(shape, dtype=object)
        a[...] = fill_value
        return a.view(arr.SArr)
    return np.full(shape, fill_value, dtype=dtype, **kw)


def sym_np_asarray(obj, dtype=None, **kw):
    if isinstance(obj, arr.SArr):
        return obj
    if arr.has_sym(obj):
        return sym_np_array(obj)
    return np.asarray(obj, dtype=dtype, **kw)


def make_np_proxy(P):
    rs = RandomStub(P)
    rnd = _Proxy(np.random, {k: getattr(rs, k) for k in dir(rs) if not k.startswith("_") and k != "P"})
    ov = {"random": rnd}
    if not P.concrete:
        ov.update({"array": sym_np_array, "full": sym_np_full, "asarray": sym_np_asarray})
    return _Proxy(np, ov), rnd


NP_MODULES = [
    "pyhms.core.individual",
    "pyhms.core.population",
    "pyhms.core.problem",
    "pyhms.demes.single_pop_eas.sea",
    "pyhms.demes.single_pop_eas.de",
    "pyhms.demes.single_pop_eas.common",
    "pyhms.demes.abstract_deme",
    "pyhms.demes.cma_deme",
    "pyhms.initializers",
    "pyhms.sprout.sprout_filters",
    "pyhms.sprout.sprout_generators",
    "pyhms.utils.clusterization",
    "pyhms.utils.r5s",
    "pyhms.stop_conditions.lsc",
    "pyhms.utils.print_tree",
    "pyhms.tree",
]


class Env:
    """Installs the environment stubs for the duration of one harness execution and restores them."""

    def __init__(self, P):
        self.P = P
        self.saved = []

    def patch(self, obj, name, value):
        self.saved.append((obj, name, getattr(obj, name, _MISSING)))
        setattr(obj, name, value)

    def __enter__(self):
        P = self.P
        P.env = self
        if getattr(P, "env_opts", {}).get("rng") == "real":
            # concrete-float harnesses (tree steps): real numpy, real (seeded) generators, nothing patched
            P.np = np
            return self
        proxy, rnd = make_np_proxy(P)
        P.np = proxy
        for mn in NP_MODULES:
            m = importlib.import_module(mn)
            if hasattr(m, "np"):
                self.patch(m, "np", proxy)
        ini = importlib.import_module("pyhms.initializers")
        self.patch(ini, "nrand", rnd)
        prob = importlib.import_module("pyhms.core.problem")
        if not P.concrete:
            self.patch(prob, "isnan", core.isnan)
            # the stdlib math functions a refactoring is likely to reach for (C level: they would call float())
            import math as _m

            def _isclose(a, b, *, rel_tol=1e-09, abs_tol=0.0):
                if not is_sym(a) and not is_sym(b):
                    return _MATH["isclose"](a, b, rel_tol=rel_tol, abs_tol=abs_tol)
                d = abs(a - b)
                eq = a == b
                tol = core.lor(d <= abs(rel_tol * b), d <= abs(rel_tol * a), d <= abs_tol)
                fin = core.land(core.lnot(core.isinf(a)), core.lnot(core.isinf(b)), core.lnot(core.isnan(a)), core.lnot(core.isnan(b)))
                return core.lor(eq, core.land(fin, tol))

            def _wrap1(name, f):
                def g(x):
                    return f(x) if is_sym(x) else _MATH[name](x)
                return g

            for name, f in (("isclose", _isclose), ("isnan", _wrap1("isnan", core.isnan)), ("isinf", _wrap1("isinf", core.isinf)),
                            ("fabs", _wrap1("fabs", abs)),
                            ("isfinite", _wrap1("isfinite", lambda x: core.land(core.lnot(core.isnan(x)), core.lnot(core.isinf(x)))))):
                self.patch(_m, name, f)
        P.env = self
        return self

    def __exit__(self, *exc):
        for obj, name, old in reversed(self.saved):
            if old is _MISSING:
                delattr(obj, name)
            else:
                setattr(obj, name, old)
        self.saved.clear()
        return False


_MISSING = object()
import math as _math_mod
_MATH = {k: getattr(_math_mod, k) for k in ("isclose", "isnan", "isinf", "fabs", "isfinite")}


# ----------------------------------------------------------------------------------------------
# which pyhms functions were entered (evidence: functions_encoded)
# ----------------------------------------------------------------------------------------------


class FunctionTracer:
    TOOL = 3

    def __init__(self):
        self.codes = {}
        self.on = False

    def start(self):
        mon = sys.monitoring
        try:
            mon.use_tool_id(self.TOOL, "symx")
        except ValueError:
            pass
        prefix = os.path.join(REPO, "pyhms")

        def cb(code, offset):
            fn = code.co_filename
            if fn.startswith(prefix):
                self.codes[(fn, code.co_qualname, code.co_firstlineno)] = code
            return mon.DISABLE

        mon.register_callback(self.TOOL, mon.events.PY_START, cb)
        mon.set_events(self.TOOL, mon.events.PY_START)
        self.on = True

    def stop(self):
        if self.on:
            mon = sys.monitoring
            mon.set_events(self.TOOL, 0)
            mon.register_callback(self.TOOL, mon.events.PY_START, None)
            try:
                mon.free_tool_id(self.TOOL)
            except Exception:
                pass
            self.on = False

    def report(self):
        out = []
        for (fn, qn, ln), code in sorted(self.codes.items()):
            if qn == "<module>":
                continue
            try:
                src = "".join(inspect.getsourcelines(code)[0])
            except Exception:
                src = ""
            out.append({"function": f"{os.path.relpath(fn, REPO)}:{qn}", "sha256": hashlib.sha256(src.encode()).hexdigest()[:16]})
        return out


# ----------------------------------------------------------------------------------------------
# explorer
# ----------------------------------------------------------------------------------------------


def _jsonable(v):
    if isinstance(v, float):
        return {"f": format(float_bits(v), "x"), "~": repr(v)}
    if isinstance(v, (bool, np.bool_)):
        return bool(v)
    if isinstance(v, (int, np.integer)):
        return int(v)
    if isinstance(v, np.ndarray):
        return [_jsonable(x) for x in v.tolist()]
    if isinstance(v, (list, tuple)):
        return [_jsonable(x) for x in v]
    return repr(v)


def model_values(P: SymProvider, model):
    """Concrete values of every declared symbol and UF call in a z3 model (exact bit patterns)."""
    vals = {}
    for name, (kind, c) in P.decls.items():
        vals[name] = solve.eval_const(model, kind, c)
    tables = {}
    for name, calls in P.uf_calls.items():
        tab = []
        seen = set()
        for terms, r in calls:
            key = tuple(solve.eval_const(model, "fbits" if P.ctx.profile == "fp" else "real", t) for t in terms)
            key = tuple(k if isinstance(k, str) else format(float_bits(float(k)), "x") for k in key)
            if key in seen:
                continue
            seen.add(key)
            rv = solve.eval_const(model, "fbits" if P.ctx.profile == "fp" else "real", r)
            rv = rv if isinstance(rv, str) else format(float_bits(float(rv)), "x")
            tab.append([list(key), rv])
        tables[name] = {"table": tab, "default": format(float_bits(0.0), "x")}
    return vals, tables


def run_replay(fn, params, values, tables):
    """Run the harness on plain Python/numpy values (no symx objects, real numpy)."""
    c = core.Ctx(profile="fp", mode="replay")
    core.set_ctx(c)
    P = ReplayProvider(values, tables)
    P.env_opts = getattr(fn, "env_opts", {})
    status = "done"
    err = None
    try:
        with Env(P):
            fn(P, **params)
    except CutPath as e:
        status = "cut"
    except EncodingMismatch as e:
        status = "mismatch"
        err = str(e)
    except Infeasible as e:
        status = "mismatch"
        err = f"assumption false in replay: {e}"
    verdicts = {}
    for name, cond in P.obligations:
        verdicts.setdefault(name, []).append(bool(cond))
    return {
        "status": status,
        "error": err,
        "verdicts": verdicts,
        "missing": P.missing,
        "observations": [(n, v) for n, v in P.observations],
    }


class CaseResult(dict):
    pass


def explore(fn, params, profile="fp", budget_s=600.0, max_paths=200000, oblig_timeout_s=60.0, portfolio=False,
            validate_paths=2, fmod_K=3, case_name="", known=None, stop_on_violation=True, separate=False, fmod_fork=False, argsort_mode="fork", incremental_discharge=False, abstract_mul=False, decide_timeout_ms=20000):
    """Explore every path of harness fn(P, **params); discharge the obligations of every path.

    Returns a dict with paths / obligations / discharged / violations (each replayed) / inconclusive / stats."""
    t_start = time.time()
    c = core.Ctx(profile=profile, decide_timeout_ms=decide_timeout_ms)
    c.fmod_K = fmod_K
    c.fmod_fork = fmod_fork
    c.argsort_mode = argsort_mode
    c.abstract_mul = abstract_mul
    c.incremental_discharge = bool(incremental_discharge)
    core.set_ctx(c)
    c.queue = [[]]
    res = {
        "case": case_name,
        "params": params,
        "profile": profile,
        "paths": 0,
        "infeasible_paths": 0,
        "cut_paths": 0,
        "cuts": {},
        "obligations": 0,
        "discharged": 0,
        "obligation_names": {},
        "violations": [],
        "inconclusive": [],
        "errors": [],
        "queries": 0,
        "solver_s": 0.0,
        "solver_wins": {},
        "validated_paths": 0,
        "validation_failures": [],
        "samples": [],
        "stubs": set(),
        "assumptions": set(),
    }
    violated_names = set()
    tracer = FunctionTracer()
    tracer.start()
    try:
        while c.queue:
            if time.time() - t_start > budget_s or res["paths"] >= max_paths:
                res["inconclusive"].append({"reason": "budget", "queued": len(c.queue), "paths": res["paths"]})
                break
            prefix = c.queue.pop()
            c.solver.reset()
            c.solver.set("timeout", c.decide_timeout_ms)
            c.reset_path(prefix)
            P = SymProvider(c)
            P.env_opts = getattr(fn, "env_opts", {})
            status = "done"
            try:
                with Env(P):
                    fn(P, **params)
            except Infeasible:
                res["infeasible_paths"] += 1
                continue
            except CutPath as e:
                status = "cut"
                res["cut_paths"] += 1
                res["cuts"][str(e)] = res["cuts"].get(str(e), 0) + 1
            except RealisationError as e:
                tb = traceback.format_exc(limit=-6)
                res["inconclusive"].append({"reason": f"RealisationError: {e}", "trace": tb})
                break
            res["paths"] += 1
            res["stubs"] |= P.stub_notes
            res["assumptions"] |= set(P.assumption_notes) | c.bound_notes
            # ---- discharge
            obls = []
            for name, cond in P.obligations:
                res["obligation_names"][name] = res["obligation_names"].get(name, 0) + 1
                res["obligations"] += 1
                if isinstance(cond, SBool):
                    obls.append((name, cond.e))
                elif bool(cond):
                    res["discharged"] += 1
                else:
                    obls.append((name, z3.BoolVal(False)))
            pending = [(n, e) for n, e in obls if n not in violated_names]
            res["discharged"] += len(obls) - len(pending)  # already-reported names are not re-counted as open
            groups = [[p] for p in pending] if separate else [pending]
            for group in groups:
                _discharge(c, P, fn, params, group, res, violated_names, oblig_timeout_s, portfolio)
            # ---- validate the symbolic execution of this path against the real code on a model of the path
            if res["validated_paths"] + len(res["validation_failures"]) < validate_paths and status == "done":
                _validate_path(c, P, fn, params, res, oblig_timeout_s)
            if len(res["samples"]) < 3 and P.obligations:
                res["samples"].append({"path_decisions": [bool(b) for b in c.trace][:40], "obligations": [n for n, _ in P.obligations][:12]})
            if res["violations"] and stop_on_violation and len(res["violations"]) >= 8:
                break
    finally:
        tracer.stop()
    res["functions_encoded"] = tracer.report()
    res["decisions"] = c.n_decisions
    res["feasibility_queries"] = c.n_feas_queries
    res["feasibility_s"] = round(c.feas_s, 3)
    res["unknown_feasibility"] = c.n_unknown_feas
    res["wall_s"] = round(time.time() - t_start, 3)
    res["stubs"] = sorted(res["stubs"])
    res["assumptions"] = sorted(res["assumptions"])
    res["solver_s"] = round(res["solver_s"], 3)
    return res


def _discharge(c, P, fn, params, pending, res, violated_names, oblig_timeout_s, portfolio):
    pending = [(n, e) for n, e in pending if n not in violated_names]
    while pending:
        neg = z3.Or(*[z3.Not(e) for _, e in pending])
        P._obl_terms = [e for _, e in pending]
        st = None
        if c.incremental_discharge:
            # comparison-dominated obligations: the path's incremental solver (pc already asserted) answers in ms;
            # anything it cannot settle quickly goes to a fresh solver / the portfolio below
            st, model, info = solve.check_incremental(c.solver, neg, min(5.0, oblig_timeout_s), P, c.decide_timeout_ms)
            if st not in ("sat", "unsat"):
                res["queries"] += 1
                res["solver_s"] += info["time"]
                st = None
        if st is None:
            st, model, info = solve.check(c.pc + [neg], oblig_timeout_s, portfolio, P)
        res["queries"] += 1
        res["solver_s"] += info["time"]
        res["solver_wins"][info["solver"]] = res["solver_wins"].get(info["solver"], 0) + 1
        if st == "unsat":
            res["discharged"] += len(pending)
            return
        if st != "sat":
            res["inconclusive"].append({"reason": f"solver {st}", "obligations": [n for n, _ in pending], "path": res["paths"]})
            return
        vals, tables = model
        failing = solve.failing_obligations(pending, model, P) or [pending[0][0]]
        rep = run_replay(fn, params, vals, tables)
        core.set_ctx(c)
        confirmed = [n for n in failing if n in rep["verdicts"] and not all(rep["verdicts"][n])]
        # the replay may expose the same defect under a sibling obligation name
        others = [n for n, vs in rep["verdicts"].items() if not all(vs) and n not in confirmed]
        if rep["status"] != "mismatch" and (confirmed or others):
            for n in confirmed + others:
                if n in violated_names:
                    continue
                violated_names.add(n)
                res["violations"].append({"obligation": n, "values": vals, "uf": tables, "params": params,
                                          "observations": _jsonable([list(o) for o in rep["observations"]]),
                                          "path": res["paths"], "solver": info["solver"]})
            violated_names.update(failing)
        else:
            res["errors"].append({"kind": "ENCODING-MISMATCH", "obligations": failing,
                                  "replay": {k: v for k, v in rep.items() if k != "observations"}, "values": vals})
            violated_names.update(failing)
        pending = [(n, e) for n, e in pending if n not in violated_names]


def _validate_path(c, P, fn, params, res, timeout_s):
    """Reachability/vacuity twin + shim validation: the path condition must be satisfiable, and the real code
    run on that model (plain numpy) must reach the same obligations, satisfy them, and produce the same
    observable values as the symbolic terms evaluate to."""
    st, model, info = solve.check(list(c.pc), min(timeout_s, 60.0), False, P, want_z3_model=True)
    res["queries"] += 1
    res["solver_s"] += info["time"]
    if st != "sat":
        if st == "unsat":
            res["validation_failures"].append({"reason": "path condition unsatisfiable (vacuous path)"})
        return
    vals, tables, zm = model
    rep = run_replay(fn, params, vals, tables)
    core.set_ctx(c)
    sym_names = [n for n, _ in P.obligations]
    rep_names = [n for n, vs in rep["verdicts"].items() for _ in vs]
    problems = []
    if rep["status"] == "mismatch":
        problems.append(f"replay mismatch: {rep['error']}")
    if sorted(sym_names) != sorted(rep_names):
        problems.append(f"obligation sets differ: symbolic {sorted(set(sym_names))} vs replay {sorted(set(rep_names))}")
    # observables
    sym_obs = P.observations
    rep_obs = rep["observations"]
    if len(sym_obs) != len(rep_obs):
        problems.append(f"observation counts differ: {len(sym_obs)} vs {len(rep_obs)}")
    else:
        for (n1, v1), (n2, v2) in zip(sym_obs, rep_obs):
            if n1 != n2:
                problems.append(f"observation names differ: {n1} vs {n2}")
                break
            a = solve.eval_value(zm, v1, c.profile)
            b = solve.concrete_value(v2)
            if not solve.values_agree(a, b, c.profile):
                problems.append(f"observable {n1}: symbolic {a} vs real {b}")
    if problems:
        res["validation_failures"].append({"reason": problems, "values": vals})
    else:
        res["validated_paths"] += 1


def write_replay(path, prop, module, func, viol):
    os.makedirs(os.path.dirname(path), exist_ok=True)
    with open(path, "w") as f:
        json.dump({"property": prop, "module": module, "function": func, "params": viol["params"], "obligation": viol["obligation"],
                   "values": viol["values"], "uf": viol["uf"], "observations": viol.get("observations")}, f, indent=1, default=str)
