"""Bit-precise encoding of numpy's float64 remainder / floor_divide (npy_divmod in npy_math_internal.h.src).

    mod = fmod(a, b)
    div = (a - mod) / b
    if mod != 0: if (b < 0) != (mod < 0): mod += b; div -= 1
    else:        mod = copysign(0, b)
    if div != 0: floordiv = floor(div); if div - floordiv > 0.5: floordiv += 1
    else:        floordiv = copysign(0, a / b)

C fmod is encoded exactly by shift-subtract, valid for |a| < 2^K * |b| (K is a stated bound; the path is
constrained to that region by an assumption that the harness reports).  fp.rem is not used.
Only b > 0 is encoded (pyhms always divides by a range upper-lower > 0); b <= 0 / NaN / inf operands are
excluded by the same assumption.
"""
import z3

from .core import F64, RNE, SBool, fp_const


def fmod_pos(a_abs, b, K):
    r = a_abs
    for k in range(K - 1, -1, -1):
        t = z3.fpMul(RNE, b, fp_const(float(2**k)))
        r = z3.If(z3.fpGEQ(r, t), z3.fpSub(RNE, r, t), r)
    return r


def npy_divmod(a, b, K, ctx):
    zero = fp_const(0.0)
    a_abs = z3.fpAbs(a)
    limit = z3.fpMul(RNE, b, fp_const(float(2**K)))
    pre = z3.And(
        z3.fpGT(b, zero),
        z3.Not(z3.fpIsInf(b)),
        z3.Not(z3.fpIsInf(limit)),
        z3.Not(z3.fpIsNaN(a)),
        z3.fpLT(a_abs, limit),
    )
    ctx.assume(SBool(pre), note=f"fmod operand within 2^{K} divisors, divisor finite > 0")
    ctx.bound_notes.add(f"np.remainder/np.floor_divide encoded for |a| < 2^{K}*b, b finite > 0")
    if getattr(ctx, "fmod_fork", False):
        # fork on every conditional subtraction: straight-line arithmetic per path (one path per translate of b)
        r = a_abs
        for k in range(K - 1, -1, -1):
            t = z3.simplify(z3.fpMul(RNE, b, fp_const(float(2**k))))
            if ctx.decide(z3.fpGEQ(r, t)):
                r = z3.simplify(z3.fpSub(RNE, r, t))
    else:
        r = fmod_pos(a_abs, b, K)
    mod = z3.If(z3.fpIsNegative(a), z3.fpNeg(r), r)  # C fmod: sign of the dividend
    div = z3.fpDiv(RNE, z3.fpSub(RNE, a, mod), b)
    mod_nz = z3.Not(z3.fpIsZero(mod))
    adj = z3.And(mod_nz, z3.fpLT(mod, zero))  # b > 0: isless(b,0)=false != isless(mod,0)
    mod2 = z3.If(mod_nz, z3.If(adj, z3.fpAdd(RNE, mod, b), mod), fp_const(0.0))  # copysign(0, b>0) = +0
    div2 = z3.If(adj, z3.fpSub(RNE, div, fp_const(1.0)), div)
    fl = z3.fpRoundToIntegral(z3.RTN(), div2)
    fl2 = z3.If(z3.fpGT(z3.fpSub(RNE, div2, fl), fp_const(0.5)), z3.fpAdd(RNE, fl, fp_const(1.0)), fl)
    q = z3.fpDiv(RNE, a, b)
    signed_zero = z3.If(z3.fpIsNegative(q), z3.fpMinusZero(F64), z3.fpPlusZero(F64))
    floordiv = z3.If(z3.fpIsZero(div2), signed_zero, fl2)
    return mod2, floordiv
