"""symx core: symbolic scalars (SBool/SInt/SFloat) over z3 and the path-forking context.

The real pyhms code is executed by CPython on these values.  Everything that truth-tests a
symbolic value (if/while/and/or/max/sorted/...) calls SBool.__bool__, which asks the active
context to *decide*; arithmetic and comparisons build z3 terms.  Two numeric profiles:
  fp   : SFloat = FloatingPoint(11,53) RNE, SInt = BitVec(32) signed
  real : SFloat = Real, SInt = Int  (geometry only; floats-as-reals abstraction, declared in evidence)
"""
from __future__ import annotations

import math
import struct
import time

import numpy as np
import z3


class PathAbort(BaseException):
    """Base of the path-steering exceptions (BaseException so that code under test never swallows them)."""


class Infeasible(PathAbort):
    pass


class CutPath(PathAbort):
    """A stated unwinding bound was reached; the residual path is outside the claim (reported)."""


class RealisationError(BaseException):
    """A symbolic value reached a C boundary the shim does not model -> harness is inconclusive."""


class EncodingMismatch(Exception):
    pass


F64 = z3.Float64()
RNE = z3.RNE()
BV32 = z3.BitVecSort(32)
SIGN = z3.BitVecVal(1 << 63, 64)
EXPMASK = z3.BitVecVal(0x7FF0000000000000, 64)
MANTMASK = z3.BitVecVal(0x000FFFFFFFFFFFFF, 64)
ABSMASK = z3.BitVecVal(0x7FFFFFFFFFFFFFFF, 64)
ZERO64 = z3.BitVecVal(0, 64)

CTX = None  # the active Ctx (one per process)


def ctx():
    if CTX is None:
        raise RuntimeError("no active symx context")
    return CTX


def set_ctx(c):
    global CTX
    CTX = c


def float_bits(x: float) -> int:
    return struct.unpack("<Q", struct.pack("<d", float(x)))[0]


def bits_float(b: int) -> float:
    return struct.unpack("<d", struct.pack("<Q", b & 0xFFFFFFFFFFFFFFFF))[0]


def fp_const(x: float):
    x = float(x)
    if x != x:
        return z3.fpNaN(F64)
    if x == math.inf:
        return z3.fpPlusInfinity(F64)
    if x == -math.inf:
        return z3.fpMinusInfinity(F64)
    b = float_bits(x)
    return z3.fpFP(z3.BitVecVal(b >> 63, 1), z3.BitVecVal((b >> 52) & 0x7FF, 11), z3.BitVecVal(b & ((1 << 52) - 1), 52))


class _Inf:
    """Extended-real constant for the 'real' profile (comparisons only)."""

    def __init__(self, sign):
        self.sign = sign


# --------------------------------------------------------------------------------------------
# scalars
# --------------------------------------------------------------------------------------------


def term_token(e) -> str:
    """Stable opaque token of a z3 term (AST ids are not stable across garbage collection): digest of its s-expression."""
    import hashlib

    return hashlib.md5(e.sexpr().encode()).hexdigest()[:10]


def is_sym(x) -> bool:
    return isinstance(x, (SFloat, SInt, SBool))


class SBool:
    __slots__ = ("e",)
    __array_priority__ = 1000

    def __init__(self, e):
        self.e = e

    def __bool__(self):
        return ctx().decide(self.e)

    def __and__(self, o):
        o = lift_bool(o)
        if o is NotImplemented:
            return o
        return mk_bool(z3.And(self.e, o.e))

    __rand__ = __and__

    def __or__(self, o):
        o = lift_bool(o)
        if o is NotImplemented:
            return o
        return mk_bool(z3.Or(self.e, o.e))

    __ror__ = __or__

    def __xor__(self, o):
        o = lift_bool(o)
        if o is NotImplemented:
            return o
        return mk_bool(z3.Xor(self.e, o.e))

    __rxor__ = __xor__

    def __invert__(self):
        return mk_bool(z3.Not(self.e))

    def __eq__(self, o):
        o = lift_bool(o)
        if o is NotImplemented:
            return o
        return mk_bool(self.e == o.e)

    def __ne__(self, o):
        o = lift_bool(o)
        if o is NotImplemented:
            return o
        return mk_bool(self.e != o.e)

    __hash__ = None

    # numeric use of booleans (mask * noise, sum(mask))
    def _num(self):
        return lift_float(self)

    def __mul__(self, o):
        if isinstance(o, np.ndarray):
            return NotImplemented
        if isinstance(o, SFloat) or isinstance(o, float):
            return bool_times_float(self, lift_float(o))
        if isinstance(o, (SInt, int)) and not isinstance(o, bool):
            o = lift_int(o)
            return SInt(z3.If(self.e, o.e, ctx().int_val(0)))
        return NotImplemented

    __rmul__ = __mul__

    def __add__(self, o):
        if isinstance(o, np.ndarray):
            return NotImplemented
        return lift_int(self) + o

    __radd__ = __add__

    def __array_ufunc__(self, ufunc, method, *inputs, **kw):
        from . import arr

        return arr.scalar_ufunc(ufunc, method, *inputs, **kw)

    def __array_function__(self, func, types, args, kwargs):
        from . import arr

        return arr.scalar_array_function(func, args, kwargs)

    def __repr__(self):
        return f"<SBool {self.e.get_id()}>"


def mk_bool(e):
    e = z3.simplify(e)
    if z3.is_true(e):
        return True
    if z3.is_false(e):
        return False
    return SBool(e)


def lift_bool(o):
    if isinstance(o, SBool):
        return o
    if isinstance(o, (bool, np.bool_)):
        return SBool(z3.BoolVal(bool(o)))
    return NotImplemented


def bexpr(o):
    """z3 Bool term of a (symbolic or concrete) boolean."""
    if isinstance(o, SBool):
        return o.e
    if isinstance(o, (bool, np.bool_)):
        return z3.BoolVal(bool(o))
    raise TypeError(f"not a boolean: {type(o)}")


class SInt:
    __slots__ = ("e",)
    __array_priority__ = 1000

    def __init__(self, e):
        self.e = e

    def _bin(self, o, name, f):
        if isinstance(o, np.ndarray):
            return NotImplemented
        if isinstance(o, (SFloat, float, np.floating)):
            return getattr(lift_float(self), name)(o)
        o = lift_int(o)
        if o is NotImplemented:
            return NotImplemented
        return SInt(z3.simplify(f(self.e, o.e)))

    def __add__(self, o):
        return self._bin(o, "__add__", lambda a, b: a + b)

    def __radd__(self, o):
        return self._bin(o, "__radd__", lambda a, b: b + a)

    def __sub__(self, o):
        return self._bin(o, "__sub__", lambda a, b: a - b)

    def __rsub__(self, o):
        return self._bin(o, "__rsub__", lambda a, b: b - a)

    def __mul__(self, o):
        return self._bin(o, "__mul__", lambda a, b: a * b)

    def __rmul__(self, o):
        return self._bin(o, "__rmul__", lambda a, b: b * a)

    def __truediv__(self, o):
        return lift_float(self) / o

    def __rtruediv__(self, o):
        return o / lift_float(self)

    def __neg__(self):
        return SInt(z3.simplify(-self.e))

    def _cmp(self, o, f_int, f_name):
        if isinstance(o, np.ndarray):
            return NotImplemented
        if isinstance(o, (SFloat, float, np.floating)):
            return getattr(lift_float(self), f_name)(o)
        o = lift_int(o)
        if o is NotImplemented:
            return NotImplemented
        return mk_bool(f_int(self.e, o.e))

    def __lt__(self, o):
        return self._cmp(o, lambda a, b: a < b, "__lt__")

    def __le__(self, o):
        return self._cmp(o, lambda a, b: a <= b, "__le__")

    def __gt__(self, o):
        return self._cmp(o, lambda a, b: a > b, "__gt__")

    def __ge__(self, o):
        return self._cmp(o, lambda a, b: a >= b, "__ge__")

    def __eq__(self, o):
        return self._cmp(o, lambda a, b: a == b, "__eq__")

    def __ne__(self, o):
        return self._cmp(o, lambda a, b: a != b, "__ne__")

    __hash__ = None

    def __index__(self):
        # used as a list index / slice bound: concretise by forking over the feasible values
        return ctx().concretise_int(self)

    def __int__(self):
        raise RealisationError("int() of a symbolic int")

    def __float__(self):
        raise RealisationError("float() of a symbolic int")

    def __bool__(self):
        return bool(self != 0)

    def __array_ufunc__(self, ufunc, method, *inputs, **kw):
        from . import arr

        return arr.scalar_ufunc(ufunc, method, *inputs, **kw)

    def __array_function__(self, func, types, args, kwargs):
        from . import arr

        return arr.scalar_array_function(func, args, kwargs)

    def __repr__(self):
        return f"[[i#{term_token(self.e)}]]"

    def __format__(self, spec):
        return f"[[i#{term_token(self.e)}]]"


def lift_int(o):
    if isinstance(o, SInt):
        return o
    if isinstance(o, SBool):
        c = ctx()
        return SInt(z3.If(o.e, c.int_val(1), c.int_val(0)))
    if isinstance(o, (bool, np.bool_)):
        return SInt(ctx().int_val(int(o)))
    if isinstance(o, (int, np.integer)):
        return SInt(ctx().int_val(int(o)))
    return NotImplemented


class SFloat:
    """nn: statically known not-NaN (lets isnan() fold without a solver call)."""

    __slots__ = ("_e", "_b", "nn")
    __array_priority__ = 1000

    def __init__(self, e=None, nn=False, b=None):
        """profile fp: a float64 is carried as an FP term (e) and/or its IEEE bit pattern (b, BitVec 64).
        Symbols and constants are bit-backed, so comparisons / selection / equality stay in the bit-vector theory
        (two orders of magnitude cheaper in z3 than fp.lt chains); arithmetic results carry an FP term."""
        self._e = e
        self._b = b
        self.nn = nn

    @property
    def e(self):
        if self._e is None:
            self._e = z3.fpBVToFP(self._b, F64)
        return self._e

    @property
    def b(self):
        if self._b is None:
            self._b = z3.fpToIEEEBV(self._e)
        return self._b

    @property
    def key(self):
        """z3 term id used for caches / tokens."""
        return (self._b if self._b is not None else self._e).get_id()

    # ---- arithmetic
    def _arith(self, o, op, rev=False):
        if isinstance(o, np.ndarray):
            return NotImplemented
        if isinstance(o, SBool):
            if op == "mul":
                return bool_times_float(o, self)
        o = lift_float(o)
        if o is NotImplemented:
            return NotImplemented
        a, b = (o, self) if rev else (self, o)
        return ctx().farith(op, a, b)

    def __add__(self, o):
        return self._arith(o, "add")

    def __radd__(self, o):
        return self._arith(o, "add", True)

    def __sub__(self, o):
        return self._arith(o, "sub")

    def __rsub__(self, o):
        return self._arith(o, "sub", True)

    def __mul__(self, o):
        return self._arith(o, "mul")

    def __rmul__(self, o):
        return self._arith(o, "mul", True)

    def __truediv__(self, o):
        return self._arith(o, "div")

    def __rtruediv__(self, o):
        return self._arith(o, "div", True)

    def __mod__(self, o):
        return self._arith(o, "mod")

    def __rmod__(self, o):
        return self._arith(o, "mod", True)

    def __floordiv__(self, o):
        return self._arith(o, "floordiv")

    def __rfloordiv__(self, o):
        return self._arith(o, "floordiv", True)

    def __neg__(self):
        c = ctx()
        if c.profile == "fp":
            if self._b is not None:
                return SFloat(None, self.nn, z3.simplify(self._b ^ SIGN))
            return SFloat(z3.simplify(z3.fpNeg(self.e)), self.nn)
        return SFloat(z3.simplify(-self.e), True)

    def __pos__(self):
        return self

    def __abs__(self):
        c = ctx()
        if c.profile == "fp":
            if self._b is not None:
                return SFloat(None, self.nn, z3.simplify(self._b & ~SIGN))
            return SFloat(z3.simplify(z3.fpAbs(self.e)), self.nn)
        return SFloat(z3.simplify(z3.If(self.e >= 0, self.e, -self.e)), True)

    def __pow__(self, o):
        if isinstance(o, (int, np.integer)) and 1 <= int(o) <= 4:
            r = self
            for _ in range(int(o) - 1):
                r = r * self
            return r
        raise RealisationError("pow of a symbolic float")

    # ---- comparisons (IEEE semantics in fp profile)
    def _cmp(self, o, op):
        if isinstance(o, np.ndarray):
            return NotImplemented
        o = lift_float(o)
        if o is NotImplemented:
            return NotImplemented
        return ctx().fcmp(op, self, o)

    def __lt__(self, o):
        return self._cmp(o, "lt")

    def __le__(self, o):
        return self._cmp(o, "le")

    def __gt__(self, o):
        return self._cmp(o, "gt")

    def __ge__(self, o):
        return self._cmp(o, "ge")

    def __eq__(self, o):
        return self._cmp(o, "eq")

    def __ne__(self, o):
        return self._cmp(o, "ne")

    __hash__ = None

    def __float__(self):
        raise RealisationError("float() of a symbolic float")

    def __int__(self):
        raise RealisationError("int() of a symbolic float")

    def __bool__(self):
        return bool(self != 0.0)

    def __array_ufunc__(self, ufunc, method, *inputs, **kw):
        from . import arr

        return arr.scalar_ufunc(ufunc, method, *inputs, **kw)

    def __array_function__(self, func, types, args, kwargs):
        from . import arr

        return arr.scalar_array_function(func, args, kwargs)

    def __repr__(self):
        return f"[[f#{term_token(self._b if self._b is not None else self._e)}]]"

    __str__ = __repr__

    def __format__(self, spec):
        return f"[[f#{term_token(self._b if self._b is not None else self._e)}{spec}]]"


def lift_float(o):
    if isinstance(o, SFloat):
        return o
    c = ctx()
    if isinstance(o, _Inf):
        return o
    if isinstance(o, SBool):
        if c.profile == "fp":
            return SFloat(None, True, z3.If(o.e, z3.BitVecVal(float_bits(1.0), 64), ZERO64))
        return SFloat(z3.If(o.e, z3.RealVal(1), z3.RealVal(0)), True)
    if isinstance(o, SInt):
        if c.profile == "fp":
            return SFloat(z3.simplify(z3.fpSignedToFP(RNE, o.e, F64)), True)
        return SFloat(z3.ToReal(o.e), True)
    if isinstance(o, (bool, np.bool_)):
        o = float(o)
    if isinstance(o, (int, float, np.floating, np.integer)):
        o = float(o)
        if c.profile == "fp":
            return SFloat(fp_const(o), o == o, z3.BitVecVal(float_bits(o), 64))
        if o != o:
            raise RealisationError("NaN constant in profile 'real'")
        if o in (math.inf, -math.inf):
            return _Inf(1 if o > 0 else -1)
        from fractions import Fraction

        fr = Fraction(o)
        return SFloat(z3.RealVal(f"{fr.numerator}/{fr.denominator}"), True)
    return NotImplemented


def bool_times_float(b: SBool, x):
    """True*x = x ; False*x = 0.0*x (signed zero / NaN for non-finite x) -- no multiplier needed."""
    c = ctx()
    if isinstance(x, _Inf):
        raise RealisationError("bool * inf")
    if c.profile == "real":
        return SFloat(z3.simplify(z3.If(b.e, x.e, z3.RealVal(0))), True)
    xb = x.b
    nonfinite = (xb & EXPMASK) == EXPMASK
    zero = z3.If(nonfinite, z3.BitVecVal(float_bits(math.nan), 64), xb & SIGN)
    return SFloat(None, False, z3.simplify(z3.If(b.e, xb, zero)))


def ite(c, a, b):
    """Merge two values under a (possibly symbolic) condition without forking."""
    if isinstance(c, (bool, np.bool_)):
        return a if c else b
    if not isinstance(c, SBool):
        raise TypeError(f"ite condition {type(c)}")
    if a is b:
        return a
    if isinstance(a, (SBool, bool, np.bool_)) and isinstance(b, (SBool, bool, np.bool_)):
        return mk_bool(z3.If(c.e, bexpr(a), bexpr(b)))
    if isinstance(a, (SInt, int, np.integer)) and isinstance(b, (SInt, int, np.integer)):
        if not is_sym(a) and not is_sym(b) and a == b:
            return a
        return SInt(z3.simplify(z3.If(c.e, lift_int(a).e, lift_int(b).e)))
    if not is_sym(a) and not is_sym(b):
        fa, fb = float(a), float(b)
        if float_bits(fa) == float_bits(fb):
            return a
    if ctx().profile == "real" and any(isinstance(v, (float, np.floating)) and (v != v or v in (math.inf, -math.inf)) for v in (a, b)):
        # NaN / inf constants have no term in profile 'real': fork on the condition instead of merging
        return a if bool(c) else b
    fa, fb = lift_float(a), lift_float(b)
    if isinstance(fa, _Inf) or isinstance(fb, _Inf):
        raise RealisationError("ite over an infinite constant in profile 'real'")
    if ctx().profile == "fp" and (fa._b is not None or fb._b is not None):
        return SFloat(None, fa.nn and fb.nn, z3.simplify(z3.If(c.e, fa.b, fb.b)))
    return SFloat(z3.simplify(z3.If(c.e, fa.e, fb.e)), fa.nn and fb.nn)


# boolean connectives that work on symbolic and concrete values alike (used by harness obligations)


def land(*xs):
    xs = [x for x in xs]
    if any(isinstance(x, SBool) for x in xs):
        return mk_bool(z3.And(*[bexpr(x) for x in xs]))
    return all(bool(x) for x in xs)


def lor(*xs):
    if any(isinstance(x, SBool) for x in xs):
        return mk_bool(z3.Or(*[bexpr(x) for x in xs]))
    return any(bool(x) for x in xs)


def lnot(x):
    if isinstance(x, SBool):
        return mk_bool(z3.Not(x.e))
    return not bool(x)


def implies(a, b):
    return lor(lnot(a), b)


def iff(a, b):
    if isinstance(a, SBool) or isinstance(b, SBool):
        return mk_bool(bexpr(a) == bexpr(b))
    return bool(a) == bool(b)


def nan_term(x):
    if x.nn:
        return z3.BoolVal(False)
    if x._b is not None:
        return z3.And((x._b & EXPMASK) == EXPMASK, (x._b & MANTMASK) != ZERO64)
    return z3.fpIsNaN(x.e)


def order_key(b):
    """IEEE bits -> unsigned-comparable key (total order on non-NaN values, -0 just below +0)."""
    return z3.If(z3.Extract(63, 63, b) == 1, ~b, b | SIGN)


def isnan(x):
    """math.isnan / np.isnan on a scalar."""
    if isinstance(x, SFloat):
        if x.nn or ctx().profile == "real":
            return False
        return mk_bool(nan_term(x))
    if isinstance(x, (SInt, SBool)):
        return False
    if x is None:
        raise TypeError("isnan(None)")
    return math.isnan(x)


def isinf(x):
    if isinstance(x, _Inf):
        return True
    if isinstance(x, SFloat):
        if ctx().profile == "real":
            return False
        if x._b is not None:
            return mk_bool((x._b & ABSMASK) == EXPMASK)
        return mk_bool(z3.fpIsInf(x.e))
    if isinstance(x, (SInt, SBool)):
        return False
    return math.isinf(x)


def same_bits(a, b):
    """Structural (bit-pattern) equality of two floats: distinguishes -0.0/+0.0, NaN equals NaN."""
    if not is_sym(a) and not is_sym(b):
        fa, fb = float(a), float(b)
        if fa != fa and fb != fb:
            return True
        return float_bits(fa) == float_bits(fb)
    fa, fb = lift_float(a), lift_float(b)
    if ctx().profile == "real":
        return mk_bool(fa.e == fb.e)
    if fa.nn and fb.nn:
        return mk_bool(fa.b == fb.b)
    na, nb = nan_term(fa), nan_term(fb)
    return mk_bool(z3.Or(z3.And(na, nb), z3.And(z3.Not(na), z3.Not(nb), fa.b == fb.b)))


def feq(a, b):
    """IEEE equality, merged (no fork)."""
    if not is_sym(a) and not is_sym(b):
        return float(a) == float(b)
    r = lift_float(a) == b
    return r


# --------------------------------------------------------------------------------------------
# the context: path condition, decisions, feasibility
# --------------------------------------------------------------------------------------------


class Ctx:
    def __init__(self, profile="fp", mode="sym", decide_timeout_ms=20000):
        assert profile in ("fp", "real")
        self.profile = profile
        self.mode = mode
        self.decide_timeout_ms = decide_timeout_ms
        self.solver = z3.Solver()
        self.solver.set("timeout", decide_timeout_ms)
        self.reset_path([])
        self.n_decisions = 0
        self.n_feas_queries = 0
        self.feas_s = 0.0
        self.n_unknown_feas = 0
        self.fmod_K = 3
        self.argsort_mode = "fork"
        self.abstract_mul = False
        self.bound_notes = set()
        self.queue = []
        self._fresh = 0

    # ---- path bookkeeping
    def reset_path(self, prefix):
        self.prefix = list(prefix)
        self.trace = []
        self.pc = []  # z3 Bool terms: decisions and assumptions, in order
        self.decided = {}  # expr id -> bool
        self.model = None
        self.assumption_notes = []
        self._sqrt_cache = {}
        self.unit_terms = {}  # id -> FP term known to lie in [0, 1] (draws of rand(), 1 - such a draw): used by a cut-point abstraction
        self.aux_decls = {}  # symbols introduced by the shim (tie-break keys, ...): part of every model
        self.preferences = []  # soft constraints used only when extracting a counterexample model

    def int_val(self, v):
        return z3.BitVecVal(v, 32) if self.profile == "fp" else z3.IntVal(v)

    def _add(self, e):
        self.pc.append(e)
        self.solver.add(e)

    def _check(self, *extra):
        t0 = time.time()
        r = self.solver.check(*extra)
        self.feas_s += time.time() - t0
        self.n_feas_queries += 1
        return r

    def assume(self, cond, note=None):
        """Constrain the rest of the path.  Placed before the code it constrains by the harness."""
        if note:
            self.bound_notes.add(note)
        if isinstance(cond, (bool, np.bool_)):
            if not cond:
                raise Infeasible("assumption is false")
            return
        e = z3.simplify(cond.e)
        if z3.is_true(e):
            return
        if z3.is_false(e):
            raise Infeasible("assumption is false")
        self._add(e)
        self.decided[e.get_id()] = True
        if self.model is not None:
            v = self.model.eval(e, model_completion=True)
            if not z3.is_true(v):
                self.model = None

    def decide(self, e) -> bool:
        e = z3.simplify(e)
        if z3.is_true(e):
            return True
        if z3.is_false(e):
            return False
        k = e.get_id()
        if k in self.decided:
            return self.decided[k]
        neg = None
        if z3.is_not(e):
            neg = e.arg(0).get_id()
            if neg in self.decided:
                return not self.decided[neg]
        self.n_decisions += 1
        i = len(self.trace)
        if i < len(self.prefix):
            v = self.prefix[i]
            self._take(e, v, k)
            self.model = None
            return v
        # which side does the current model witness?
        witnessed = None
        if self.model is not None:
            mv = self.model.eval(e, model_completion=True)
            if z3.is_true(mv):
                witnessed = True
            elif z3.is_false(mv):
                witnessed = False
        t_ok = f_ok = None
        new_model = {}
        for side in (True, False):
            if witnessed is side:
                ok = True
            else:
                r = self._check(e if side else z3.Not(e))
                if r == z3.sat:
                    ok = True
                    new_model[side] = self.solver.model()
                elif r == z3.unsat:
                    ok = False
                else:
                    # unknown: over-approximate (explore the side); sound for 'holds' verdicts,
                    # and a spurious counterexample cannot survive replay.
                    ok = True
                    self.n_unknown_feas += 1
            if side:
                t_ok = ok
            else:
                f_ok = ok
        if t_ok and f_ok:
            self.queue_push(self.trace + [False])
            v = True
        elif t_ok:
            v = True
        elif f_ok:
            v = False
        else:
            raise Infeasible("path condition became unsatisfiable")
        self._take(e, v, k)
        if witnessed is not v:
            self.model = new_model.get(v)
        return v

    def _take(self, e, v, k):
        self.trace.append(v)
        self._add(e if v else z3.Not(e))
        self.decided[k] = v

    def queue_push(self, prefix):
        self.queue.append(prefix)

    def concretise_int(self, x, limit=64):
        for _ in range(limit):
            if self.model is None:
                if self._check() != z3.sat:
                    raise Infeasible("no model to concretise from")
                self.model = self.solver.model()
            v = self.model.eval(x.e, model_completion=True)
            v = v.as_signed_long() if z3.is_bv_value(v) else v.as_long()
            if self.decide(z3.simplify(x.e == self.int_val(v))):
                return v
        raise RealisationError("symbolic index with more than 64 feasible values")

    def fresh_name(self, base):
        self._fresh += 1
        return f"{base}!{self._fresh}"

    def choose(self, why="choice") -> bool:
        """Demonic binary choice (e.g. the order an unstable sort gives to tied keys): forks."""
        b = z3.Bool(f"choice!{len(self.trace)}!{len(self.pc)}")
        return self.decide(b)

    def real_sqrt(self, x):
        """profile 'real': Euclidean norms via an auxiliary root d >= 0, d*d = x."""
        e = z3.simplify(x.e)
        key = e.get_id()
        if key in self._sqrt_cache:
            return self._sqrt_cache[key]
        d = z3.Real(f"sqrt!{len(self.pc)}!{key}")
        self._add(z3.And(d >= 0, d * d == e))
        self.model = None
        r = SFloat(d, True)
        self._sqrt_cache[key] = r
        return r

    # ---- float arithmetic in the active profile
    def farith(self, op, a, b):
        if isinstance(a, _Inf) or isinstance(b, _Inf):
            # profile 'real': extended-real arithmetic with a finite (symbolic) operand
            if isinstance(a, _Inf) and isinstance(b, _Inf):
                raise RealisationError("inf (op) inf in profile 'real'")
            if op == "add":
                return math.inf * (a.sign if isinstance(a, _Inf) else b.sign)
            if op == "sub":
                return math.inf * (a.sign if isinstance(a, _Inf) else -b.sign)
            raise RealisationError(f"{op} on an infinite constant in profile 'real'")
        if self.profile == "fp":
            if op == "add":
                e = z3.fpAdd(RNE, a.e, b.e)
            elif op == "sub":
                e = z3.simplify(z3.fpSub(RNE, a.e, b.e))
                if b.e.get_id() in self.unit_terms and a._b is not None and z3.is_bv_value(a._b) and a._b.as_long() == float_bits(1.0):
                    self.unit_terms[e.get_id()] = e  # 1 - u with u in [0,1] is again in [0,1]
            elif op == "mul":
                if self.abstract_mul and not _is_const(a) and not _is_const(b):
                    # cut-point: symbolic x symbolic products are replaced by an unconstrained float64 (over-approximation)
                    self.bound_notes.add("symbolic*symbolic float products abstracted to unconstrained values (over-approximation)")
                    return SFloat(None, False, z3.BitVec(self.fresh_name("absmul"), 64))
                e = z3.fpMul(RNE, a.e, b.e)
            elif op == "div":
                e = z3.fpDiv(RNE, a.e, b.e)
            elif op in ("mod", "floordiv"):
                from .fpmod import npy_divmod

                m, d = npy_divmod(a.e, b.e, self.fmod_K, self)
                e = m if op == "mod" else d
            else:
                raise RealisationError(op)
            return SFloat(z3.simplify(e), False)
        if op == "add":
            e = a.e + b.e
        elif op == "sub":
            e = a.e - b.e
        elif op == "mul":
            e = a.e * b.e
        elif op == "div":
            e = a.e / b.e
        else:
            raise RealisationError(f"{op} in profile 'real'")
        return SFloat(z3.simplify(e), True)

    def fcmp(self, op, a, b):
        if isinstance(a, _Inf) or isinstance(b, _Inf):
            return _cmp_inf(op, a, b)
        if self.profile == "fp":
            if a._b is None and b._b is None:
                f = {"lt": z3.fpLT, "le": z3.fpLEQ, "gt": z3.fpGT, "ge": z3.fpGEQ, "eq": z3.fpEQ,
                     "ne": lambda x, y: z3.Not(z3.fpEQ(x, y))}[op]
                return mk_bool(f(a.e, b.e))
            if op in ("gt", "ge"):
                a, b, op = b, a, {"gt": "lt", "ge": "le"}[op]
            A, B = a.b, b.b
            ok = z3.And(z3.Not(nan_term(a)), z3.Not(nan_term(b)))
            both_zero = z3.And((A & ABSMASK) == ZERO64, (B & ABSMASK) == ZERO64)
            if op == "lt":
                r = z3.And(ok, z3.ULT(order_key(A), order_key(B)), z3.Not(both_zero))
            elif op == "le":
                r = z3.And(ok, z3.Or(z3.ULE(order_key(A), order_key(B)), both_zero))
            elif op == "eq":
                r = z3.And(ok, z3.Or(A == B, both_zero))
            else:
                r = z3.Not(z3.And(ok, z3.Or(A == B, both_zero)))
            return mk_bool(r)
        f = {
            "lt": lambda x, y: x < y,
            "le": lambda x, y: x <= y,
            "gt": lambda x, y: x > y,
            "ge": lambda x, y: x >= y,
            "eq": lambda x, y: x == y,
            "ne": lambda x, y: x != y,
        }[op]
        return mk_bool(f(a.e, b.e))


def _is_const(x):
    t = x._b if x._b is not None else x._e
    return z3.is_bv_value(t) or z3.is_fp_value(t) if t is not None else False


def _cmp_inf(op, a, b):
    sa = a.sign if isinstance(a, _Inf) else 0
    sb = b.sign if isinstance(b, _Inf) else 0
    return {"lt": sa < sb, "le": sa <= sb, "gt": sa > sb, "ge": sa >= sb, "eq": sa == sb, "ne": sa != sb}[op]
