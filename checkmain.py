import argparse
import os
import sys

HERE = os.path.dirname(os.path.abspath(__file__))
sys.path.insert(0, HERE)
sys.path.insert(0, os.environ.get("PYHMS_REPO", "/repo"))
sys.dont_write_bytecode = True


import warnings
warnings.filterwarnings("ignore")


def main():
    ap = argparse.ArgumentParser()
    ap.add_argument("property", nargs="?")
    ap.add_argument("--tier", default=os.environ.get("VERIF_TIER", "quick"))
    ap.add_argument("--replay")
    ap.add_argument("--jobs", type=int, default=None)
    a = ap.parse_args()
    from symx import run

    if a.replay:
        sys.exit(run.main_replay(a.replay))
    seed = int(os.environ.get("VERIF_SEED", "0") or 0)
    sys.exit(run.main_property(a.property.upper(), a.tier, seed, a.jobs))


if __name__ == "__main__":
    main()
