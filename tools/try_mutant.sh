#!/bin/sh
# usage: tools/try_mutant.sh <patch.diff> <PROP> [tier]   -- applies the patch to /repo, runs the check, reverts.
set -u
PATCH="$1"; PROP="$2"; TIER="${3:-quick}"
cd /repo || exit 2
git diff --quiet || { echo "repo dirty"; exit 2; }
git apply "$PATCH" || git apply --3way "$PATCH" || { echo "patch does not apply"; exit 2; }
cd /verif
./check "$PROP" --tier "$TIER" > /tmp/mut_$PROP.out 2>&1
rc=$?
git -C /repo checkout -- . ; git -C /repo reset -q
echo "rc=$rc"; grep -c "^VIOLATION" /tmp/mut_$PROP.out; grep "^VIOLATION\|HARNESS-PROBLEM" /tmp/mut_$PROP.out | cut -c1-220 | head -5; tail -1 /tmp/mut_$PROP.out | cut -c1-250
