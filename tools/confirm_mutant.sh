#!/bin/sh
# usage: tools/confirm_mutant.sh <seeded-id>  -- confirms in a scratch worktree: demo passes without, suite passes + demo fails with the patch
ID="$1"; D=/verif/seeded/$ID; P=$(echo $ID | cut -d- -f1)
W=/tmp/cw_$ID
git -C /repo worktree add -q --detach $W HEAD || exit 2
cp $D/demo_$P.py $W/
cd $W
/venv/bin/python demo_$P.py > /tmp/cw_$ID.orig 2>&1; r0=$?
if git apply $D/patch.diff 2>/dev/null || git apply --3way $D/patch.diff 2>/dev/null; then
  /venv/bin/python -m pytest -q -p no:cacheprovider --timeout=900 > /tmp/cw_$ID.test 2>&1; rt=$?
  /venv/bin/python demo_$P.py > /tmp/cw_$ID.mut 2>&1; r1=$?
  echo "$ID demo_without=$r0 tests=$rt($(tail -1 /tmp/cw_$ID.test | cut -c1-30)) demo_with=$r1"
else
  echo "$ID PATCH DOES NOT APPLY"
fi
cd /; git -C /repo worktree remove --force $W
