#!/bin/sh
# usage: tools/try_neutral.sh <patch> <PROP...>  -- applies a behaviour-preserving refactoring to /repo, runs the quick checks, reverts.
PATCH="$1"; shift
cd /repo || exit 2
git diff --quiet || { echo "repo dirty"; exit 2; }
git apply "$PATCH" || { echo "patch does not apply"; exit 2; }
cd /verif
for p in "$@"; do
  ./check $p > /tmp/neu_$p.out 2>&1; rc=$?
  echo "$p rc=$rc $(grep -c '^VIOLATION' /tmp/neu_$p.out) viol $(grep -c '^HARNESS-PROBLEM' /tmp/neu_$p.out) problems"
  grep "^VIOLATION\|^HARNESS-PROBLEM" /tmp/neu_$p.out | cut -c1-260 | head -3
done
git -C /repo checkout -- . ; git -C /repo reset -q
