#!/bin/sh
# runs every claimed check of a tier sequentially, one summary line each
TIER="${1:-quick}"
cd "$(dirname "$0")/.."
for p in $(python3 -c "import json; print(' '.join(c['property_id'] for c in json.load(open('MANIFEST.json'))['checks']))"); do
  s=$(date +%s)
  ./check $p --tier $TIER > /tmp/all_${TIER}_$p.out 2>&1; rc=$?
  e=$(date +%s)
  echo "$p rc=$rc $((e-s))s $(grep -c '^VIOLATION' /tmp/all_${TIER}_$p.out) viol $(grep -c '^HARNESS-PROBLEM' /tmp/all_${TIER}_$p.out) problems $(grep -c '^KNOWN-FINDING' /tmp/all_${TIER}_$p.out) known"
done
