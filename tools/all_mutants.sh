#!/bin/sh
# runs every seeded change against the quick check of its property; prints one line each
cd /verif
for d in seeded/*/; do
  id=$(basename $d); p=$(echo $id | cut -d- -f1)
  if grep -q '"status": "retired' $d/meta.json 2>/dev/null; then echo "$id retired"; continue; fi
  out=$(timeout 3600 tools/try_mutant.sh /verif/$d/patch.diff $p 2>&1)
  v=$(echo "$out" | grep -c "^VIOLATION")
  rc=$(echo "$out" | grep "^rc=" | head -1)
  echo "$id $rc violations_shown=$v $(echo "$out" | tail -1 | grep -o 'wall=[0-9.]*s')"
done
