#!/usr/bin/env python3
"""Regenerates MANIFEST.json from the table below (kept in one place so that it stays valid while checks are added)."""
import json
import os

HERE = os.path.dirname(os.path.abspath(__file__))
TECH = "bounded symbolic execution of the real pyhms code (symx: z3 path exploration + SMT discharge, replayed counterexamples)"

CHECKS = {
    "C03": ("Counter laws on the real tree: at every consultation of the global stop condition and after the step, tree total == sum over demes == "
            "number of objective invocations (per level and in total), for every schedule of stop verdicts / flags within the tree bounds; "
            "minimize(maxfun=N): nfev == number of calls to fun <= N.",
            "tree widths/levels of the case list; real engines, cma and scipy run on concrete numbers (one seed per case); nfev bookkeeping of scipy is trusted as reported"),
    "C04": ("Tree/deme best versus a brute-force scan of every history after every metaepoch of bounded real runs under every schedule of local-stop verdicts; "
            "ordering laws of Individual/worse_than on symbolic float64 fitness; selection never drops the best evaluated offspring (symbolic populations).",
            "bounded run length and tree width; budget-prefix clause decided for one seed and all budget pairs N1 < N2 <= 40 (thorough 100) of minimize()"),
    "C05": ("One real run_step from an arbitrary flag state with symbolic (monotone) stop verdicts: counter +1, no sprouting once the condition was seen true, "
            "<= 1 engine iteration per deme after the first 'true'; real run() with symbolic / shipped conditions returns exactly at the first true loop-head verdict.",
            "monotone stop conditions; tree widths of the case list"),
    "C06": ("One real run_step from an arbitrary flag state: active & awake demes advance by exactly one metaepoch, all others are frozen (history digest, "
            "counters, flags), deactivation follows exactly lsc / gsc / engine stop per deme class, no reactivation; bounded real runs: stopped demes stay frozen.",
            "tree widths of the case list; engines run concretely"),
    "C07": ("Tree well-formedness invariant re-established by every real run_step / sprouting round from an arbitrary flag state, seed provenance by object identity, "
            "seed present in population-based children; base case and reachable states by bounded real runs.",
            "tree widths of the case list"),
    "C08": ("Level-limit census (symbolic active flags) <= L at every consultation of the stop condition and after the step, created <= L - active before the round, "
            "from every flag state satisfying the limit, with a generator offering seeds for an arbitrary subset of parents; real LevelLimit on symbolic candidate sets.",
            "tree widths of the case list; L in 1..3"),
    "C11": ("Spies on the real engines inside one real run_metaepoch with 1-3 generations: the parents handed to generation j are generation j-1, every individual "
            "either belonged to the previous generation or was evaluated after it was complete; CMA-ES tell() receives the previous generation.",
            "population engines run concretely (seeded); tree widths of the case list"),
    "C12": ("(mu+k) truncation of the real BaseSEA.select_new_population on fully symbolic float64 fitness (ties, +-inf, both directions): best never worsens, size constant, "
            "nothing better is dropped; one real DE.run generation on symbolic genomes: slot-wise and k-th-best no worsening.",
            "n <= 3 (select) / n = 4 (DE), d = 1; apply_bounds replaced by its C17 contract inside DE; stable tie order of numpy's small-array argsort"),
    "C16": ("Every wrapper stack up to depth 2 (+ sampled depth 3; thorough: depth 3 + sampled depth 4) over an uninterpreted objective, symbolic direction, symbolic cutoff N, "
            "symbolic optimum/precision, 4-5 evaluate calls: returned values, per-layer counters, ETA/hit flag, number of objective invocations and the static interface "
            "agree with an independent reference model on every path.",
            "objective deterministic and non-NaN; call sequences <= 5"),
    "C17": ("Bit-precise float64 queries on the real apply_bounds: in-box and fix-point for every finite g within 2^K ranges of each catalogue box (K=3), clip for a fully symbolic box, "
            "prescribed movement (congruence modulo the range / mirror) per translate of the box (K=1 quick, 2 thorough), 2x2 cross-talk.",
            "box catalogue; |g - lower| < 2^K ranges; numpy's npy_divmod encoding (validated by replay on every path model); congruence obligations are soft (undecided ones are listed)"),
    "C18": ("One real run_step / sprouting round from an arbitrary flag state with hibernation on / off / absent: flags after the round are exactly 'no sprout taken', newborn demes awake, "
            "sleeping demes are free, off never hibernates, an awake active deme always evaluates; bounded real runs under every local-stop schedule for the no-stall clause "
            "(the 'every active deme asleep' stall is a recorded known finding).",
            "tree widths of the case list; run length <= 7 metaepochs"),
}

CHECKS.update({
    "C01": ("Bit-precise float64 kernel lemmas on the real code (ArithmeticCrossover children, LHS/Sobol affine scaling, rejection sampling) over a box catalogue with symbolic "
            "genomes and draws; composed SEA/GA/DE engine steps with repair/crossover kernels replaced by their proven contracts: every logged objective argument and every "
            "returned genome in the box; the box handed to cma / scipy is the (symbolic) problem box and x0 the seed; end to end on real trees every logged point, stored genome, seed.",
            "box catalogue, d=1 for kernels, n<=4; apply_bounds contract from C17; library engines stay inside the box they are given (documented contract)"),
    "C02": ("Uninterpreted objective F: after the real update_genome/evaluate, every operator and every SEA/GA/DE engine step, CMA/local wrapping, each returned individual "
            "carries F(its own genome) (bitwise), exactly the changed rows are evaluated once, parents and their arrays are untouched (frame), histories are append-only.",
            "n<=4, d<=2, one step; F deterministic, non-NaN, blind to the sign of zero; symbolic*symbolic products abstracted; apply_bounds by contract"),
    "C09": ("Real FarEnough / NBC_FarEnough on symbolic candidates, sibling populations and activity flags (reals): kept iff strictly farther than the threshold from the current mean "
            "of every considered sibling, for norms 1/2/inf; deme.centroid == mean(current population) after every real metaepoch of every engine class under all schedules.",
            "profile real (no rounding); <=2 candidates, <=2 siblings, d<=2; MahalanobisFarEnough outside"),
    "C10": ("Real DemeLimit, LevelLimit, SkipSameSprout, BestPerDeme, NBC_Generator and composed get_seeds on symbolic candidate sets (fitness with ties, both directions, "
            "symbolic occupancy): only remove, keep the best, exact counts, free slots filled when distinct, isclose duplicates.",
            "profile real; candidate sets within the stated sizes"),
    "C13": ("Twin execution of the same real component on (f, maximize) and (-f, minimize) inside one path exploration: ordering, max/sorted, topk, tournament, (mu+k) selection, "
            "DE replacement, NBC, DemeLimit, LevelLimit, BestPerDeme, best-individual queries, R5S, and the values handed to cma.tell / scipy.minimize are identical.",
            "profile real; n 3-4 (R5S 6); distinct fitness where numpy's argsort tie order would matter; whole-run twin clause decided for the listed engine mixes (DE/SHADE/CMA/local/LHS/Sobol), 3-5 metaepochs, one seed, under every shared schedule of local-stop verdicts"),
    "C15": ("Real NearestBetterClustering on symbolic populations (genomes, fitness with ties, factor, truncation, direction) against the relational definition: truncation keeps the best, "
            "every recorded distance is the distance to the nearest strictly better individual (tied-with-best -> best), result = best + {d_i > factor*mean}; "
            "permutation / translation / scaling invariance; node-id collisions hunted on real float64 arrays closer than the printed precision.",
            "profile real; n<=3 (thorough 4), d=1 (d=2 soft/optional: NRA)"),
    "C20": ("Real format_deme / tree() / summary() on constructed trees with symbolic float64 fitness and symbolic counters (float->text as opaque tokens): one line per displayed deme with "
            "its own counter and best, *** iff deme best == global best, totals / per-level sums / counts; every accessor called twice after every metaepoch of bounded real runs: "
            "no evaluation, no state change, same answer.",
            "trees of <=4 demes, 3 levels; digits of printed floats outside"),
})

NOT_APPLICABLE = {
    "C14": "Reproducibility is a statement about the bit streams of numpy's MT19937, Python's random, scipy's samplers and cma's internal RNG use across processes and PYTHONHASHSEED; none of that code is encodable, and with RNGs stubbed as uninterpreted streams the 2-safety 'same seed => same tree' holds by construction of the stubs, so a solver verdict would be vacuous.",
    "C19": "The property is the behaviour of dill (reduction protocol, closures, C-level pickling of cma/scipy objects) on the live object graph; it cannot be executed symbolically or encoded, and nothing of pyhms' own logic lies between pickle_dump and dill.dump.",
}
PENDING = {}


def main():
    props = [json.loads(l)["id"] for l in open(os.path.join(HERE, "properties.jsonl"))]
    checks = []
    for pid in props:
        if pid not in CHECKS or not os.path.exists(os.path.join(HERE, "harness", pid.lower() + ".py")):
            continue
        text, note = CHECKS[pid]
        checks.append({
            "property_id": pid,
            "quick_cmd": f"./check {pid} --tier quick",
            "thorough_cmd": f"./check {pid} --tier thorough",
            "evidence_file": f"/verif/evidence/{pid}.json",
            "replay_cmd_template": "./check --replay {path}",
            "engine": "symx",
            "level_claimed": {"category": "model_checking", "text": text, "design_ref": f"DESIGN.md section 6, {pid}"},
            "level_note": note + "; trusted base: CPython, numpy's elementwise float64 ops, z3 5.1 / z3 4.8.12 / cvc5 1.0.3, the symx shim (validated per path by replaying a path model on the real code)",
            "technique": TECH,
        })
    na = [{"property_id": k, "reason": v} for k, v in NOT_APPLICABLE.items()]
    for pid in props:
        if pid not in [c["property_id"] for c in checks] and pid not in NOT_APPLICABLE:
            na.append({"property_id": pid, "reason": PENDING.get(pid, "check under construction in this round (harness not yet committed); not claimed until it is")})
    man = {
        "version": 1,
        "setup_cmd": "sh /verif/setup.sh",
        "hooks": {"guard": "PYHMS_VERIF", "enable": "no source hooks: all instrumentation is harness-level patching of module globals / instance attributes at run time (PYHMS_VERIF=1 is exported by ./check but read by nothing in /repo)",
                  "baseline_off_cmd": "cd /repo && /venv/bin/python -m pytest -ra -q -p no:cacheprovider --timeout=900 --continue-on-collection-errors",
                  "source_commits": [], "add_only": True},
        "engines": [{"name": "symx", "path": "/verif/symx", "serves_properties": [c["property_id"] for c in checks],
                     "kind_free_text": "path-forking symbolic execution of the real Python code on z3-backed scalars (bit-precise float64 / BV32 ints), numpy via an object-dtype ndarray subclass, SMT discharge with a z3/cvc5 portfolio, replay of every model on the real code"}],
        "checks": checks,
        "not_applicable": na,
        "notes": "Exit codes of ./check: 0 held on everything explored (known findings printed as KNOWN-FINDING lines); 1 with VIOLATION lines for replayed counterexamples not listed in known_findings.json; 3 inconclusive / harness problem (never a success).",
    }
    with open(os.path.join(HERE, "MANIFEST.json"), "w") as f:
        json.dump(man, f, indent=1)
    print("checks:", [c["property_id"] for c in checks], "n/a:", [n["property_id"] for n in na])


if __name__ == "__main__":
    main()
